# C17 — configuration sources are applied in the documented order.
# Exhaustive: every setting x all 8 subsets of {environment, file, command line} through the REAL
# flagSet (in-package verif driver), plus seeded multi-setting cases.
import os, re, json, itertools
import vf


def tables():
    src = open(os.path.join(vf.COQ, "Gen", "Options.v")).read()
    # the documented key of a setting is the NAME part of its yaml tag (what follows a comma are yaml options such as omitempty)
    settings = [(f, t.split(",")[0], k) for f, t, k in re.findall(r'\("(\w+)", "([^"]*)", "([\w\[\]\*\.]+)"\)', src.split("Definition defaults")[0])]
    defaults = dict(re.findall(r'\("(\w+)", "((?:[^"]|"")*)"\)', src.split("Definition defaults")[1].split("Definition stages")[0]))
    regs = re.findall(r'StReg "(\w+)" "([\w-]+)"', src.split("Definition stages")[1])
    return settings, defaults, regs


# the settings whose values are strings on the configuration surface of the pinned commit
PINNED_STRING_KEYS = {"log-file", "pid-file", "cpu-cap", "stats-format", "stats-http-addr", "stats-http-port", "sflow-addr", "sflow-topic",
                      "sflow-mirror-addr", "ipfix-addr", "ipfix-topic", "ipfix-mirror-addr", "ipfix-tpl-cache-file", "netflow5-addr",
                      "netflow5-topic", "netflow9-addr", "netflow9-topic", "netflow9-tpl-cache-file", "mq-name", "mq-config-file"}


def hx(s):
    return "x" + s.encode().hex()


class P:
    id = "C17"

    def __init__(self):
        self.cases_json = {}
        self.expect = {}

    def budget(self, tier):
        return 300 if tier == "quick" else 20000

    def default_of(self, field, kind, defaults):
        d = defaults.get(field, "")
        if kind == "bool":
            return d if d in ("true", "false") else "false"
        if kind == "int":
            return d if re.fullmatch(r"-?\d+", d) else "0"
        return d

    def mk_case(self, chosen, settings, defaults, regs, rng=None):
        """chosen: dict field -> {'env': v?, 'file': v?, 'cli': v?}.  With rng: the spelling varies - an integer in the environment
        may be zero-padded (it still spells the same decimal number), a flag is written `-flag=value` or `-flag value`, before or
        after `-config <file>`."""
        tag = {f: t for f, t, k in settings}
        kind = {f: k for f, t, k in settings}
        flag = {f: fl for f, fl in regs}
        env, filelines, args, pre = {}, [], [], []
        D, E, F, C = [], [], [], []
        for f, fl in regs:
            D += [f, hx(self.default_of(f, kind[f], defaults))]
        for f, srcs in chosen.items():
            if "env" in srcs:
                spelled = srcs["env"]
                if rng is not None and kind[f] == "int" and re.fullmatch(r"\d+", spelled) and rng.random() < 0.3:
                    spelled = "0" * rng.choice([1, 2]) + spelled          # VFLOW_IPFIX_PORT=04739 is the decimal number 4739
                env["VFLOW_" + tag[f].upper().replace("-", "_")] = spelled; E += [f, hx(srcs["env"])]
            if "file" in srcs:
                v = srcs["file"]
                # a setting that takes a STRING (as of the pinned commit: addresses, topics, file names, the stats port ...) is written
                # as users write strings, quoted - whatever type the field has in the tree under test
                quoted = kind[f] == "string" or tag[f] in PINNED_STRING_KEYS
                filelines.append("%s: %s" % (tag[f], json.dumps(v) if quoted else v)); F += [f, hx(srcs["file"])]
            if "cli" in srcs:
                where = pre if (rng is not None and rng.random() < 0.3) else args
                if rng is not None and kind[f] != "bool" and rng.random() < 0.5:
                    where += ["-" + flag[f], srcs["cli"]]
                else:
                    where.append("-%s=%s" % (flag[f], srcs["cli"]))
                C += [flag[f], hx(srcs["cli"])]
        line = "options D %s E %s F %s C %s" % (" ".join(D), " ".join(E), " ".join(F), " ".join(C))
        if filelines and rng is not None and rng.random() < 0.15:
            # one line of the file written twice (the same key with the same value): every key of the file still counts
            k = rng.randrange(len(filelines))
            filelines = filelines + [filelines[k]]
        text = ("\n".join(filelines) + "\n") if filelines else None
        if text is not None and rng is not None and rng.random() < 0.3:
            # an annotated configuration file: comment blocks of 5 kB / 70 kB before, between or after the settings (a file has no
            # length limit; every key in it counts wherever it stands)
            block = "".join("# %s\n" % ("vflow configuration - " * 3 + str(i)) for i in range(rng.choice([70, 1000])))
            k = rng.randrange(len(filelines) + 1)
            text = "\n".join(filelines[:k] + [block.rstrip("\n")] + filelines[k:]) + "\n"
        self.cases_json[line] = {"cmd": "options", "env": env, "file": text, "args": args, "pre_args": pre}
        if rng is not None:
            # the configuration file named in each spelling the flag package accepts
            self.cases_json[line]["config_form"] = rng.choice(["-config F", "-config F", "-config=F", "--config F", "--config=F"])
        exp = {}
        for f, fl in regs:
            s = chosen.get(f, {})
            exp[f] = s.get("cli", s.get("file", s.get("env", self.default_of(f, kind[f], defaults))))
        self.expect[line] = exp
        return line

    def values(self, kind, default, i):
        if kind == "bool":
            nd = "false" if default == "true" else "true"
            return {"env": nd, "file": default, "cli": nd}, {"env": nd, "file": nd, "cli": default}
        if kind == "int":
            return {"env": str(1000 + 3 * i), "file": str(1001 + 3 * i), "cli": str(1002 + 3 * i)}, None
        if i % 3 == 2:
            # values that look like other things the option code handles: flag names, booleans, numbers, key=value
            # ... and values with characters that mean something to a shell or a template engine: they are plain text here
            tricky = ["config", "verbose", "ipfix-port", "true", "false", "0", "10", "a=b", "x y", "VFLOW_IPFIX_PORT", "vflow.conf",
                      "flows$prod", "nf9.${site}.raw", "$VFLOW_IPFIX_TOPIC.v2", "100%", "~/x", "a#b", "{{.Name}}", "$HOME/t"]
            return {"env": tricky[i % len(tricky)], "file": tricky[(i + 3) % len(tricky)], "cli": tricky[(i + 5) % len(tricky)]}, None
        return {"env": "env-%d" % i, "file": "file value %d" % i, "cli": "cli:%d" % i}, None

    def cases(self, tier, rng, budget):
        settings, defaults, regs = tables()
        self.regs = regs
        kind = {f: k for f, t, k in settings}
        tagd = {f: t for f, t, k in settings}
        out = []
        keys = [f for f, fl in regs if tagd.get(f)]            # settable from all three sources
        for i, f in enumerate(keys):
            d = self.default_of(f, kind[f], defaults)
            for vals in self.values(kind[f], d, i):
                if vals is None:
                    continue
                for subset in itertools.product([0, 1], repeat=3):
                    srcs = {k: vals[k] for k, on in zip(("env", "file", "cli"), subset) if on}
                    out.append(self.mk_case({f: srcs}, settings, defaults, regs))
        self.exhaustive_n = len(out)
        for _ in range(budget):     # several settings at once, random subsets
            chosen = {}
            for f in rng.sample(keys, rng.choice([2, 3, 5, 10])):
                vals, _ = self.values(kind[f], self.default_of(f, kind[f], defaults), rng.randrange(1000))
                chosen[f] = {k: v for k, v in vals.items() if rng.random() < 0.5}
            out.append(self.mk_case(chosen, settings, defaults, regs, rng))
        # one ILL-TYPED environment value among well-typed ones (an integer with a trailing blank, a boolean spelled `off`): the collector
        # either refuses to start (it does: a fatal start-up error) or - if it ever carries on - every OTHER variable still counts
        self.illtyped = set()
        ikeys = [f for f in keys if kind[f] == "int"]
        bkeys = [f for f in keys if kind[f] == "bool"]
        for i in range(12 if tier == "quick" else 120):
            bad = rng.choice(ikeys + bkeys)
            others = rng.sample([f for f in keys if f != bad], 6)
            chosen = {f: {"env": self.values(kind[f], self.default_of(f, kind[f], defaults), 700 + i)[0]["env"]} for f in others}
            line = self.mk_case(chosen, settings, defaults, regs)
            tagd_ = {f: t for f, t, k in settings}
            self.cases_json[line]["env"]["VFLOW_" + tagd_[bad].upper().replace("-", "_")] = rng.choice(["300 ", "off", "1e3", "yes please", "0x10", "+-5"])
            line2 = line + " ILLTYPED " + bad
            self.cases_json[line2] = self.cases_json[line]; self.expect[line2] = {f: v for f, v in self.expect[line].items() if f != bad}
            self.illtyped.add(line2)
            out.append(line2)
        # a string setting written `-flag value` BEFORE `-config <file>`, its value looking like a flag name; another setting in the file
        skeys = [f for f in keys if kind[f] == "string"]
        ikeys = [f for f in keys if kind[f] == "int"]
        for i, f in enumerate(skeys):
            for v in ("config", "verbose", "-x"):
                other = ikeys[i % len(ikeys)]
                line = self.mk_case({f: {"cli": v}, other: {"file": str(4000 + i)}}, settings, defaults, regs)
                c = self.cases_json[line]
                c["pre_args"], c["args"] = ["-" + dict(regs)[f], v], []
                out.append(line)
        # every setting once more with the spelling varied (zero-padded environment integers, `-flag value`, flags before -config)
        for i, f in enumerate(keys):
            d = self.default_of(f, kind[f], defaults)
            vals = self.values(kind[f], d, 3 * i + 2)[0]
            for subset in ((1, 0, 0), (0, 0, 1), (1, 1, 1), (1, 0, 1)):
                srcs = {k: vals[k] for k, on in zip(("env", "file", "cli"), subset) if on}
                out.append(self.mk_case({f: srcs}, settings, defaults, regs, rng))
        return out

    def run_impl(self, lines):
        # the ill-typed-environment cases END the driver process when the collector refuses to start (that is their expected outcome):
        # they are run apart, a few at a time, so that they do not use up the restarts the driver allows for one batch
        ill = [l for l in lines if l in getattr(self, "illtyped", ())]
        if ill and len(ill) < len(lines):
            rest = [l for l in lines if l not in set(ill)]
            got = dict(zip(rest, self.run_impl(rest)))
            for k in range(0, len(ill), 30):
                got.update(zip(ill[k:k + 30], self.run_impl(ill[k:k + 30])))
            return [got[l] for l in lines]
        res = vf.run_driver([self.cases_json[l] for l in lines])
        out = []
        for r in res:
            if "error" in r:
                out.append("DRIVER-ERROR " + r["error"][:200]); continue
            out.append(";".join("%s=%s" % (f, hx(r.get(f, "?"))) for f, fl in self.regs))
        return out

    def judge(self, line, impl, model):
        if line in getattr(self, "illtyped", ()):
            if impl.startswith("DRIVER-ERROR"):
                return None          # refused to start
            model = impl             # (the model has no ill-typed values: only the specification-built expectation decides here)
        if impl.startswith("DRIVER-ERROR"):
            return impl
        got = dict(kv.split("=", 1) for kv in impl.split(";"))
        for f, want in self.expect[line].items():
            g = bytes.fromhex(got.get(f, "x")[1:]).decode()
            if g != want:
                c = self.cases_json[line]
                return ("setting %s = %r, but the documented order (command line, else file, else environment, else default) gives %r "
                        "[env=%s file=%r args=%s]" % (f, g, want, c["env"], c["file"], c["args"]))
        if impl != model:
            a, b = impl.split(";"), model.split(";")
            d = [(x, y) for x, y in zip(a, b) if x != y][:3]
            return "model/implementation disagreement: %s" % d
        return None

    def classify(self, line, impl, model):
        c = self.cases_json[line]
        k = "env=%d file=%d cli=%d" % (min(len(c["env"]), 2), min(len((c["file"] or "").split("\n")) - 1, 2) if c["file"] else 0, min(len(c["args"]), 2))
        return (k, line)

    def tie_obligations(self):
        return 1

    def extra(self, tier, rng, known):
        return {"coverage": {"exhaustive": True, "exhaustive_single_setting_cases": getattr(self, "exhaustive_n", 0)}}

    def rule(self):
        return ("exhaustive part: every registered setting that has a yaml key (ports, worker counts, enable switches, stats address/port, "
                "cache files, topics, ...) x all 8 subsets of {environment, configuration file, command line} with a distinct value per "
                "source (booleans: two value patterns), through the real flagSet; then seeded cases with 2-10 settings at once. "
                "Observed: every Options field after flagSet. every case is distinct")

    def trusted_base(self):
        return ["Coq 8.16.1 kernel incl. vm_compute (shape check of the regenerated stage list)",
                "translator extract/options.go (struct tags, NewOptions literal, flagSet statement order and each registration's default expression)",
                "hand model of what getEnv / yaml.Unmarshal / flag.XVar / flag.Parse do to a field (coq/Model/Options.v run_stage), tied by this exhaustive run",
                "in-package verif driver vflow/verif_driver_test.go (build tag verif) running the real flagSet"]

    def assumptions(self):
        return ["environment values are non-empty and well-typed (an empty variable counts as unset; an ill-typed one is a fatal start-up error)",
                "the configuration file is named on the command line in any spelling the flag package accepts (-config f, --config f, -config=f, --config=f); slice-valued sflow-type-filter is outside 'integer, string, boolean'"]


PROP = P()
