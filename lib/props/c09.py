# C09 — an undecodable set never corrupts its neighbours; truncation never fabricates.
# Relational checks on the implementation: records(with an undecodable set inserted at any position)
# == records(without); records(prefix of the datagram, EVERY offset) is a prefix of records(complete).
import re, struct
from props.c03 import FlowFidelity
from props.flowgen import Gen, Oracle, Tpl
from props.flowprop import SEP, go_model, parse_dgram, subst_floats, header_of
from props.common import hx, rand_addr


class P(FlowFidelity):
    def __init__(self):
        FlowFidelity.__init__(self, "C09", "ipfix")
        self.meta = {}        # line -> (base id, kind, detail)
        self.full = {}        # base id -> records of the complete data message (implementation)

    def budget(self, tier):
        return 14 if tier == "quick" else 400     # base messages; each expands to all insert positions and ALL truncation offsets

    def base(self, g, rng, directed):
        addr = rand_addr(rng)
        # templates: records > 4 octets (keeps clear of the recorded <=4-octet padding finding)
        tpls = []
        for tid in rng.sample([256, 257, 258, 400], rng.choice([1, 2, 3])):
            while True:
                t, o = g.rand_tpl(tid=tid, allow_var=(rng.random() < 0.5))
                if g.min_rec_len(t) > 4:
                    break
            tpls.append((t, o))
        # a template over an element that is missing from the information model (announced, so that data for it is 'undecodable')
        # (as an ordinary field after or before a known one, or as the SCOPE field / an option field of an options template)
        known, missing = (rng.choice([1, 2, 8]), 0, 4), (31000 + rng.randrange(100), 0, 4)
        shape = rng.choice(["last", "first", "scope", "scope-second", "option"])
        if shape in ("last", "first"):
            tm, tm_opts = Tpl(999, [], [known, missing] if shape == "last" else [missing, known]), False
        elif shape == "scope":
            tm, tm_opts = Tpl(999, [missing], [known]), True
        elif shape == "scope-second":
            tm, tm_opts = Tpl(999, [known, missing], [(rng.choice([1, 2, 8]), 0, 4)]), True
        else:
            tm, tm_opts = Tpl(999, [known], [missing]), True
        # (every fourth base: it RE-DEFINES the id of an installed template: data for that id is undecodable from then on, and what the id
        # used to mean must not be applied to it)
        redefined = None
        if len(tpls) >= 2 and rng.random() < 0.25:
            redefined = tpls[-1][0].tid
            tm.tid = redefined
        # (every fifth base: a template whose records are exactly FOUR octets long, its data set last in the message and without padding:
        # what that set yields must not depend on whether something follows it)
        t4 = Tpl(401, [], [(rng.choice([8, 12, 10, 14]), 0, 4)]) if rng.random() < 0.2 else None
        if t4 is not None:
            tpls = tpls + [(t4, False)]
        tsets = [g.enc_set(g.tpl_set_id(o), g.enc_tpl(t, o)) for t, o in tpls] + [g.enc_set(g.tpl_set_id(tm_opts), g.enc_tpl(tm, tm_opts))]
        m1 = g.enc_msg(tsets)
        dsets = []
        usable = [tp for tp in tpls if tp[0].tid != redefined and tp[0] is not t4]
        for _ in range(rng.choice([1, 2, 3])):
            t, o = rng.choice(usable)
            body = b""
            for _ in range(rng.choice([1, 2, 4])):
                w, _ = g.rand_record(t)
                if directed and all(sp[2] != 65535 for sp in t.specs()) and len(w) >= 12:   # fixed-length records only: a splice must not hit a length prefix
                    # make the record's octets look like the set header + record of another installed template
                    t2 = rng.choice(usable)[0]
                    fake = struct.pack(">HH", t2.tid, 4 + 8) + bytes([66] * 8)
                    w = (fake + w)[:len(w)] if rng.random() < 0.5 else (w[:len(w) - len(fake)] + fake)[-len(w):]
                body += w
            dsets.append(g.enc_set(t.tid, body))
        if t4 is not None:
            dsets.append(g.enc_set(401, b"".join(g.rand_record(t4)[0] for _ in range(3))))
        self.last_tsets, self.last_tpls = tsets, tpls
        return addr, m1, dsets, tm

    def undecodable(self, g, rng, kind, tm, tpls_known):
        body = bytes(rng.randrange(256) for _ in range(rng.choice([0, 1, 4, 5, 8, 12, 13, 16, 40])))
        if kind == "reserved":
            lo = 4 if self.proto == "ipfix" else 2
            # every reserved id, and in particular those that look like something else (9 and 10 are the version numbers a message starts with)
            sid = rng.choice([lo, lo + 1, 100, 255, 9, 10, 10, 5, rng.randrange(lo, 256), rng.randrange(lo, 256)])
            if sid in (9, 10) and rng.random() < 0.7:
                # ... with a body that would read as a message header followed by sets of installed templates
                body = struct.pack(">HII", 16 + 4 + 8, 0, 7)[:10] + struct.pack(">I", 1) + struct.pack(">HH", rng.choice(tpls_known), 12) + bytes([6] * 4 + [7] * 4) + body
            return g.enc_set(sid, body)
        if kind == "unknown":
            if rng.random() < 0.5:   # body that looks like sets of known templates
                body = struct.pack(">HH", rng.choice(tpls_known), 12) + bytes([66] * 8) + body
            return g.enc_set(rng.choice([5000, 65000, 12345]), body)
        return g.enc_set(tm.tid, bytes(rng.randrange(256) for _ in range(rng.choice([8, 16, 24]))))

    def cases(self, tier, rng, budget):
        out = []
        bid = 0
        for proto in ("ipfix", "nf9"):
            self.proto = proto
            self.cmd = "ipfixh" if proto == "ipfix" else "nf9h"
            g = Gen(proto, go_model(), rng)
            for b in range(budget // 2):
                addr, m1, dsets, tm = self.base(g, rng, directed=(b % 2 == 0))
                bid += 1
                pre = "%s %s %s %s " % (self.cmd, hx(addr), hx(m1), hx(addr))
                full = g.enc_msg(dsets, seq=7)
                line = pre + hx(full)
                self.meta[line] = (bid, "full", None); out.append(line)
                known_ids = [256, 257, 258, 400]
                for pos in range(len(dsets) + 1):
                    for kind in ("reserved", "unknown", "missing-element"):
                        s = self.undecodable(g, rng, kind, tm, known_ids)
                        msg = g.enc_msg(dsets[:pos] + [s] + dsets[pos:], seq=7)
                        line = pre + hx(msg)
                        self.meta[line] = (bid, "insert", "%s@%d" % (kind, pos)); out.append(line)
                # the templates announced in the SAME message as the data: a set for an id that is announced only later in the
                # message is 'unknown' where it stands, is skipped, and changes nothing about the sets after the announcement
                bid2 = 1000000 + bid
                addr2 = rand_addr(rng)
                pre2 = "%s %s %s %s " % (self.cmd, hx(addr2), hx(g.enc_msg([])), hx(addr2))
                tsets = self.last_tsets
                line = pre2 + hx(g.enc_msg(tsets + dsets, seq=7))
                self.meta[line] = (bid2, "full", None); out.append(line)
                for (t, o) in self.last_tpls:
                    # (lengths that are not multiples of 4 included: nothing may 're-align' by eating the start of the next set)
                    early = g.enc_set(t.tid, bytes(rng.randrange(256) for _ in range(rng.choice([8, 12, 24, 5, 7, 9, 13]))))
                    for pos in range(len(tsets)):
                        # (not after its own announcement: there it would be a decodable or malformed data set, not an unknown one)
                        if pos > [k for k, (t2, _) in enumerate(self.last_tpls) if t2.tid == t.tid][0]:
                            continue
                        msg = g.enc_msg(tsets[:pos] + [early] + tsets[pos:] + dsets, seq=7)
                        line = pre2 + hx(msg)
                        self.meta[line] = (bid2, "insert", "unknown id %d (announced later in the message)@%d" % (t.tid, pos)); out.append(line)
                # ... and with that announcement as the ONLY template set of the message (nothing else that could reset per-message state)
                for i3, (t, o) in enumerate(self.last_tpls):
                    bid3 = 2000000 + bid * 10 + i3
                    addr3 = rand_addr(rng)
                    pre3 = "%s %s %s %s " % (self.cmd, hx(addr3), hx(g.enc_msg([])), hx(addr3))
                    ts = g.enc_set(g.tpl_set_id(o), g.enc_tpl(t, o))
                    ds = [g.enc_set(t.tid, b"".join(g.rand_record(t)[0] for _ in range(2))) for _ in range(2)]
                    line = pre3 + hx(g.enc_msg([ts] + ds, seq=7))
                    self.meta[line] = (bid3, "full", None); out.append(line)
                    early = g.enc_set(t.tid, bytes(rng.randrange(256) for _ in range(rng.choice([12, 5, 6, 7, 9]))))
                    res_ = self.undecodable(g, rng, "reserved", tm, known_ids)
                    for sets_ in ([early, ts] + ds, [early, early, ts] + ds, [res_, ts] + ds, [res_, ts, ds[0], res_, ds[1]]):
                        line = pre3 + hx(g.enc_msg(sets_, seq=7))
                        self.meta[line] = (bid3, "insert", "unknown id %d, announced by the next set" % t.tid); out.append(line)
                # SEVERAL undecodable sets (2, 3, 7, 12 of them, mixed kinds) in a row, in front, in the middle and at the end
                for n_bad in (2, 3, 7, 12):
                    bads = [self.undecodable(g, rng, rng.choice(["reserved", "unknown", "unknown", "missing-element"]), tm, known_ids) for _ in range(n_bad)]
                    if n_bad == 7:
                        bads = [self.undecodable(g, rng, "unknown", tm, known_ids) for _ in range(n_bad)]
                    pos = rng.randrange(len(dsets) + 1)
                    for sets_ in (bads + dsets, dsets[:pos] + bads + dsets[pos:], [x for d_ in dsets for x in (bads[:n_bad // 2] + [d_])] + bads[n_bad // 2:]):
                        msg = g.enc_msg(sets_, seq=7)
                        if len(msg) < 60000:
                            line = pre + hx(msg)
                            self.meta[line] = (bid, "insert", "%d undecodable sets" % n_bad); out.append(line)
                # a message carrying an unknown-template set whose BODY is a complete, decodable set of an installed
                # template, truncated at every offset (a swallowed skip error would re-parse that body as sets)
                t2 = None
                for pos in range(len(dsets) + 1):
                    # (the inner set carries records of its OWN, with fresh values: if they ever show up they were fabricated)
                    ti_, _ = rng.choice(self.last_tpls)
                    inner = g.enc_set(ti_.tid, b"".join(g.rand_record(ti_)[0] for _ in range(rng.choice([1, 2]))))
                    # ... followed by a few more octets of the unknown set, so that a cut can fall AFTER the complete inner set
                    s = g.enc_set(rng.choice([5000, 65000]), inner + bytes(rng.randrange(256) for _ in range(rng.choice([4, 8, 12]))))
                    msg = g.enc_msg(dsets[:pos] + [s] + dsets[pos:], seq=7)
                    for k in range(len(msg)):
                        line = pre + hx(msg[:k])
                        if line not in self.meta:
                            self.meta[line] = (bid, "trunc", "%d (with an unknown-template set at position %d)" % (k, pos)); out.append(line)
                    if tier == "quick":
                        break
                for k in range(len(full)):       # EVERY truncation offset 0..len-1
                    line = pre + hx(full[:k])
                    if line not in self.meta:
                        self.meta[line] = (bid, "trunc", k); out.append(line)
        return out

    def post(self, lines, impl, model):
        for l, i in zip(lines, impl):
            m = self.meta.get(l)
            if m and m[1] == "full":
                d = parse_dgram(i.split(SEP)[-1])
                self.full[m[0]] = d.get("recs", []) if d["kind"] == "MSG" else None
        return impl, subst_floats(model)

    def judge(self, line, impl, model):
        if "PANIC" in impl or "HANG" in impl or impl.startswith("CRASH"):
            return "crashed: " + impl[-60:]
        m = self.meta.get(line)
        if m:
            bid, kind, detail = m
            full = self.full.get(bid)
            parts = impl.split(SEP)
            last = parse_dgram(parts[-1]) if len(parts) == 2 else {"kind": "MISSING"}
            recs = last.get("recs", []) if last["kind"] == "MSG" else []
            if kind == "full" and (full is None or len(full) == 0):
                return "the complete well-formed message yields no records: " + parts[-1][:100]
            if kind == "insert" and recs != full:
                return "inserting an undecodable set (%s) changed the records of the other sets: %d records instead of %d" % (detail, len(recs), len(full or []))
            if kind == "trunc" and full is not None and recs != full[:len(recs)]:
                extra = [r for r in recs if r not in full]
                return "truncating the datagram at octet %s yields records that are not a prefix of the complete datagram's: %s" % (detail, (extra or recs)[:2])
        strip = lambda o: SEP.join(re.sub(r" J:\S+$", "", x) for x in o.split(SEP))
        if strip(impl) != strip(model):
            return "model/implementation disagreement: impl %r model %r" % (strip(impl)[-300:], strip(model)[-300:])
        return None

    def tags(self, line, impl, model, v):
        return []

    def classify(self, line, impl, model):
        m = self.meta.get(line, (0, "corpus", None))
        d = parse_dgram(model.split(SEP)[-1])
        n = d.get("n", 0)
        return ("%s %s recs=%s" % (line.split(" ", 1)[0], m[1], "0" if n == 0 else "1+"), line)

    def tie_obligations(self):
        return 0

    def rule(self):
        return ("per base history (templates incl. one over an element missing from the model, then a data message of 1-3 sets; half of "
                "the bases carry record octets that look like set headers + records of other installed templates): the complete message, "
                "every insertion position x {reserved id, unknown template id, missing element} with random bodies, and EVERY truncation "
                "offset 0..len-1 of the data message (complete enumeration per message). IPFIX and v9. every case is distinct and counted")


PROP = P()
