# helpers shared by the property modules
import ipaddress


def go_ip_string(b):
    """net.IP.String() as documented: dotted quad for 4-byte and v4-mapped 16-byte, RFC 5952 for IPv6,
    '?hex' for other lengths, '<nil>' for empty (independent of the Coq model: uses Python's ipaddress)."""
    if len(b) == 0:
        return "<nil>"
    if len(b) == 4:
        return ".".join(str(x) for x in b)
    if len(b) == 16:
        if b[:12] == bytes(10) + b"\xff\xff":
            return ".".join(str(x) for x in b[12:])
        return ipaddress.IPv6Address(bytes(b)).compressed
    return "?" + bytes(b).hex()


_COLLIDING = None


def colliding_exporters():
    """exporter addresses that collide pairwise under common 32-bit hashes (FNV-1, FNV-1a, CRC-32), precomputed
    (corpus/data/hash_colliding_exporters.json): anything keyed by a hash of the exporter address confuses them"""
    global _COLLIDING
    if _COLLIDING is None:
        import json, os
        p = os.path.join(os.path.dirname(os.path.dirname(os.path.dirname(os.path.abspath(__file__)))), "corpus", "data", "hash_colliding_exporters.json")
        try:
            d = json.load(open(p))
            _COLLIDING = [bytes.fromhex(x) for pairs in d.values() for pr in pairs for x in pr]
        except Exception:
            _COLLIDING = []
    return _COLLIDING


def rand_addr(rng):
    k = rng.random()
    if k < 0.06 and colliding_exporters():
        return rng.choice(colliding_exporters())
    if k < 0.12:
        # 4-octet addresses whose hex form has no letter (100.64.0.1 = 64400001, 16.32.48.64, 1.2.3.4): with an id of the same kind
        # (256 = 0100) the cache key reads as a decimal number; it is a key like any other
        return bytes(rng.choice([0x00, 0x01, 0x10, 0x16, 0x20, 0x32, 0x40, 0x48, 0x64, 0x99, 0x07]) for _ in range(4))
    if k < 0.4:
        return bytes(rng.randrange(256) for _ in range(4))
    if k < 0.6:
        return bytes(10) + b"\xff\xff" + bytes(rng.randrange(256) for _ in range(4))
    # IPv6 with zero runs of assorted lengths and positions
    g = [rng.choice([0, 0, rng.randrange(65536), rng.randrange(16), 0xffff]) for _ in range(8)]
    if rng.random() < 0.3:
        i = rng.randrange(8); j = rng.randrange(i, 8)
        for t in range(i, j + 1):
            g[t] = 0
    return b"".join(x.to_bytes(2, "big") for x in g)


def hx(b):
    return "x" + bytes(b).hex()
