# C20 — built-in vs shipped information model.  The deciding part is the kernel's exhaustive
# reflection over the regenerated tables (Properties/C20.v); this correspondence validates the
# translator and the hand model of LoadExtElements against the EVALUATED Go objects on both load paths.
import vf, json, os


def parse(dump):
    out = {}
    for e in dump.split(";"):
        f = e.split(":")
        if len(f) == 5:
            out[(int(f[0]), int(f[1]))] = (int(f[2]), f[3], int(f[4]))
    return out


class P:
    id = "C20"
    _impl = {}

    def budget(self, tier):
        return 40

    def cases(self, tier, rng, budget):
        """the two dumps, then DECODING on both load paths: every element of the built-in table under enterprise 0, 40 to a template,
        announced and used by one record, for IPFIX and NetFlow v9: decoded with the built-in model before the file is ever loaded,
        with the shipped file installed and loaded, and with the built-in model again (all in one process, in this order)"""
        from props.flowgen import Gen, Tpl, MINLEN
        from props.flowprop import go_model
        from props.common import hx, rand_addr
        out = ["infomodel builtin", "infomodel shipped"]
        self.as_hist = {}
        model = go_model()
        for proto in ("ipfix", "nf9"):
            g = Gen(proto, model, rng)
            iana = sorted((eid, t) for (pen, eid), (fid, t) in model.items() if pen == 0 and eid < 30000)
            for k in range(0, len(iana), 40):
                # (IPFIX: every chunk a second time with its string / octetArray elements as VARIABLE-length fields)
                for var in ((False, True) if proto == "ipfix" else (False,)):
                    a = rand_addr(rng)
                    t = Tpl(256 + k // 40, [], [(eid, 0, 65535 if (var and ty in (13, 14)) else (MINLEN.get(ty, 0) or 4)) for eid, ty in iana[k:k + 40]])
                    if var and all(f[2] != 65535 for f in t.fields):
                        continue
                    rec = g.rand_record(t)[0]
                    hist = "%s %s %s %s" % (hx(a), hx(g.enc_msg([g.enc_set(g.tpl_set_id(False), g.enc_tpl(t, False))])), hx(a), hx(g.enc_msg([g.enc_set(t.tid, rec)])))
                    line = "imdecode %s %s" % (proto, hist)
                    self.as_hist[line] = ("ipfixh " if proto == "ipfix" else "nf9h ") + hist
                    out.append(line)
        # ... and with RFC 5610 type-information records in the traffic (an exporter describing IANA and enterprise elements, also with
        # the enterprise bit set in the id): what templates mean afterwards is what the tables say, on both load paths
        from props import c03
        self.typeinfo = {}
        g = Gen("ipfix", model, rng)
        for _ in range(3):
            l3 = c03.PROP.gen_typeinfo(g, rng)
            line = "imdecode ipfix " + l3.split(" ", 1)[1]
            self.as_hist[line] = l3
            self.typeinfo[line] = c03.PROP.expect[l3]
            out.append(line)
        return out

    def post(self, lines, impl, model):
        idx = [i for i, l in enumerate(lines) if l in getattr(self, "as_hist", {})]
        if idx:
            from props.flowprop import subst_floats
            res = subst_floats(vf.run_model([self.as_hist[lines[i]] for i in idx]))
            model = list(model)
            for i, r in zip(idx, res):
                model[i] = r
        return impl, model

    def judge(self, line, impl, model):
        if line.startswith("imdecode"):
            proto = line.split()[1]
            parts = impl.split(" || ")
            if len(parts) != 3 or "PANIC" in impl or "HANG" in impl:
                return "decoding on the two load paths failed: %s" % impl[:200]
            r0, r1, r2 = parts[0], parts[1][len("SHIPPED "):], parts[2][len("AFTER "):]
            data = lambda r: r.split(" ## ")[-1]
            if r1 != r0:
                return ("the same %s template and record decode differently once scripts/ipfix.elements is installed and loaded: built-in %r, "
                        "with the file %r" % (proto, data(r0)[:300], data(r1)[:300]))
            if r2 != r0:
                return ("the same %s template and record decode differently with the built-in model after the shipped file was loaded once in "
                        "the process: before %r, after %r" % (proto, data(r0)[:300], data(r2)[:300]))
            exp = getattr(self, "typeinfo", {}).get(line)
            if exp is not None:
                from props.flowprop import parse_dgram, SEP
                for which, r in (("built-in", r0), ("shipped file installed", r1), ("built-in again", r2)):
                    got = [parse_dgram(o) for o in r.split(SEP)]
                    for k, (e, g_) in enumerate(zip(exp, got)):
                        if g_.get("kind") != "MSG" or g_["recs"] != e["recs"]:
                            return ("after type-information records (RFC 5610) of one exporter, datagram %d of the history is not decoded as the information model "
                                    "(%s) says: want %s got %s" % (k, which, e["recs"][:2], g_.get("recs", g_.get("kind"))[:2] if isinstance(g_.get("recs"), list) else g_.get("kind")))
            if r0 != model:
                return "model/implementation disagreement: impl %r model %r" % (data(r0)[:300], data(model)[:300])
            return None
        which = line.split()[1]
        self._impl[which] = impl
        if impl.startswith(("PANIC", "ERR", "CRASH")):
            return "loading the %s information model failed: %s" % (which, impl[:200])
        got = parse(impl)
        for (pen, eid), (fid, name, ty) in sorted(got.items()):
            if fid != eid:
                return "entry (%d,%d) of the %s model is keyed by %d but carries FieldID %d" % (pen, eid, which, eid, fid)
        if which == "shipped" and "builtin" in self._impl:
            a, b = parse(self._impl["builtin"]), got
            for k in sorted(set(a) | set(b)):
                if a.get(k) != b.get(k):
                    return ("element %s differs between the two load paths: built-in %s vs file installed %s "
                            "(an IPFIX record using this element decodes differently depending on whether scripts/ipfix.elements is installed)"
                            % (k, a.get(k), b.get(k)))
        if impl != model:
            a, b = parse(impl), parse(model)
            ks = [k for k in sorted(set(a) | set(b)) if a.get(k) != b.get(k)]
            return "evaluated Go %s model differs from the translated/modelled one at %s: go=%s model=%s" % (
                which, ks[:3], [a.get(k) for k in ks[:3]], [b.get(k) for k in ks[:3]])
        return None

    def classify(self, line, impl, model):
        if line.startswith("imdecode"):
            return ("decode-both-paths " + line.split()[1], line if " N:1 " in impl else None)
        n = len(parse(impl))
        return ("entries=%d" % n, line if n > 100 else None)

    def tie_obligations(self):
        return 0

    def startup_paths(self, rng):
        """the collector BINARY on both load paths: started once with an empty configuration directory and once with the shipped
        scripts/ipfix.elements installed there (what its start-up code does with the file is part of the load path); the same
        templates over every built-in element (40 to a template) and the same records are sent to both; what is published must be
        the same, and something must be published"""
        import shutil, signal, socket, tempfile, time, struct
        from props import c15
        from props.flowgen import Gen, Tpl, MINLEN
        from props.flowprop import go_model
        rc, out = vf.sh(["go", "build", "-o", os.path.join(vf.HARNESS, "bin", "vflow"), "./vflow/"], cwd=vf.REPO, env=vf.GOENV, timeout=900)
        if rc != 0:
            return [{"cases": [], "no_failing_input": True, "verdict": "vflow binary does not build: " + out[-300:]}], {}
        model = go_model()
        g = Gen("ipfix", model, rng)
        iana = sorted((eid, t) for (pen, eid), (fid, t) in model.items() if pen == 0 and eid < 30000)
        msgs = []
        for k in range(0, len(iana), 40):
            t = Tpl(256 + k // 40, [], [(eid, 0, MINLEN.get(ty, 0) or 4) for eid, ty in iana[k:k + 40]])
            rec = bytes(rng.randrange(256) for _ in range(sum(f[2] for f in t.fields)))
            msgs.append((g.enc_msg([g.enc_set(2, g.enc_tpl(t, False))]), g.enc_msg([g.enc_set(t.tid, rec)], seq=770000 + k), 770000 + k, [e for e, _ in iana[k:k + 40]]))
        got = {}
        for which in ("absent", "installed"):
            d = tempfile.mkdtemp(prefix="verif-im-", dir=os.path.join(vf.ROOT, ".build"))
            sink = c15.Sink()
            try:
                col = c15.Collector(d, sink.port)
                if which == "installed":
                    shutil.copyfile(os.path.join(vf.REPO, "scripts", "ipfix.elements"), os.path.join(col.conf, "ipfix.elements"))
                if not col.start():
                    return [{"cases": [], "verdict": "the collector does not start with the information-element file %s" % which}], {}
                sock = socket.socket(socket.AF_INET, socket.SOCK_DGRAM); sock.bind(("127.0.0.1", 0))
                res = []
                for tmsg, dmsg, seq, ids in msgs:
                    key = b'"SequenceNo":%d' % seq
                    line = None
                    for attempt in range(3):
                        sock.sendto(tmsg, ("127.0.0.1", col.ports["ipfix"])); time.sleep(0.03)
                        sock.sendto(dmsg, ("127.0.0.1", col.ports["ipfix"]))
                        line = sink.wait_for(lambda l: key in l, 1.5)
                        if line is not None:
                            break
                    res.append(line)
                sock.close()
                col.stop(signal.SIGTERM)
                got[which] = res
            finally:
                sink.close()
                if col.p and col.p.poll() is None:
                    col.p.kill()
                shutil.rmtree(d, ignore_errors=True)
        viol = []
        for (tmsg, dmsg, seq, ids), a, b in zip(msgs, got["absent"], got["installed"]):
            if a is None:
                viol.append({"cases": [], "verdict": "the collector (no ipfix.elements installed) publishes nothing for a record over the built-in elements %s..%s" % (ids[0], ids[-1]),
                             "template": tmsg.hex(), "data": dmsg.hex()}); break
            if a != b:
                viol.append({"cases": [], "verdict": "the collector decodes the same template and record (elements %s..%s) differently once the shipped scripts/ipfix.elements is installed in its "
                             "configuration directory: without the file %r, with it %r" % (ids[0], ids[-1], a[:200], (b or b"nothing published")[:200]), "template": tmsg.hex(), "data": dmsg.hex()}); break
        return viol, {"startup_path_templates": len(msgs)}

    def extra(self, tier, rng, known):
        sv, scov = self.startup_paths(rng)
        r = self.extra0(tier, rng, known)
        r["violations"] = sv + r.get("violations", [])
        r.setdefault("coverage", {}).update(scov)
        return r

    def extra0(self, tier, rng, known):
        ex = {}
        p = os.path.join(vf.ROOT, ".build", "extract.json")
        if os.path.exists(p):
            ex = json.load(open(p))
        # only what concerns the information model tables; a table the translator cannot read is a broken tie, not a failing input
        mine = [q for q in (ex.get("problems") or []) if q.startswith(("FieldType", "InfoModel", "scripts/ipfix.elements"))]
        return {"coverage": {"exhaustive": True, "translator": ex.get("infomodel", {}), "translator_notes": ex.get("problems") or []},
                "violations": [{"cases": [], "no_failing_input": True, "verdict": "translator could not read the information model tables: %s" % mine[:5]}] if mine else []}

    def rule(self):
        return ("finite and exhaustive: all entries of both generated tables are checked by vm_compute reflection in the kernel; "
                "the two correspondence cases dump the evaluated Go InfoModel on both load paths (file absent / scripts/ipfix.elements "
                "installed via LoadExtElements) and compare all entries with the model; non-trivial = a dump with > 100 entries")

    def trusted_base(self):
        return ["Coq 8.16.1 kernel incl. vm_compute (finite reflection over 402+402 entries)",
                "translator extract/infomodel.go (go/ast walk of ipfix/rfc5102_model.go; yaml.v2 for scripts/ipfix.elements), validated each run against the evaluated Go map",
                "hand model of LoadExtElements in coq/Model/InfoModelDefs.v (load_ext), validated each run",
                "extraction (ExtrOcamlBasic) + ocaml/driver.ml; Go harness harness/cmd/impl/infomodel.go"]

    def assumptions(self):
        return ["'recognised type' = the 20 names of FieldTypes plus basicList/subTemplateList/subTemplateMultiList (RFC 6313 types both tables map to Unknown on purpose)",
                "the registry snapshot is coq/Pinned/InfoModel.v, frozen at the pinned commit"]


PROP = P()
