# C20 — built-in vs shipped information model.  The deciding part is the kernel's exhaustive
# reflection over the regenerated tables (Properties/C20.v); this correspondence validates the
# translator and the hand model of LoadExtElements against the EVALUATED Go objects on both load paths.
import vf, json, os


def parse(dump):
    out = {}
    for e in dump.split(";"):
        f = e.split(":")
        if len(f) == 5:
            out[(int(f[0]), int(f[1]))] = (int(f[2]), f[3], int(f[4]))
    return out


class P:
    id = "C20"
    _impl = {}

    def budget(self, tier):
        return 2

    def cases(self, tier, rng, budget):
        return ["infomodel builtin", "infomodel shipped"]

    def judge(self, line, impl, model):
        which = line.split()[1]
        self._impl[which] = impl
        if impl.startswith(("PANIC", "ERR", "CRASH")):
            return "loading the %s information model failed: %s" % (which, impl[:200])
        got = parse(impl)
        for (pen, eid), (fid, name, ty) in sorted(got.items()):
            if fid != eid:
                return "entry (%d,%d) of the %s model is keyed by %d but carries FieldID %d" % (pen, eid, which, eid, fid)
        if which == "shipped" and "builtin" in self._impl:
            a, b = parse(self._impl["builtin"]), got
            for k in sorted(set(a) | set(b)):
                if a.get(k) != b.get(k):
                    return ("element %s differs between the two load paths: built-in %s vs file installed %s "
                            "(an IPFIX record using this element decodes differently depending on whether scripts/ipfix.elements is installed)"
                            % (k, a.get(k), b.get(k)))
        if impl != model:
            a, b = parse(impl), parse(model)
            ks = [k for k in sorted(set(a) | set(b)) if a.get(k) != b.get(k)]
            return "evaluated Go %s model differs from the translated/modelled one at %s: go=%s model=%s" % (
                which, ks[:3], [a.get(k) for k in ks[:3]], [b.get(k) for k in ks[:3]])
        return None

    def classify(self, line, impl, model):
        n = len(parse(impl))
        return ("entries=%d" % n, line if n > 100 else None)

    def tie_obligations(self):
        return 0

    def extra(self, tier, rng, known):
        ex = {}
        p = os.path.join(vf.ROOT, ".build", "extract.json")
        if os.path.exists(p):
            ex = json.load(open(p))
        # only what concerns the information model tables; a table the translator cannot read is a broken tie, not a failing input
        mine = [q for q in (ex.get("problems") or []) if q.startswith(("FieldType", "InfoModel", "scripts/ipfix.elements"))]
        return {"coverage": {"exhaustive": True, "translator": ex.get("infomodel", {}), "translator_notes": ex.get("problems") or []},
                "violations": [{"cases": [], "no_failing_input": True, "verdict": "translator could not read the information model tables: %s" % mine[:5]}] if mine else []}

    def rule(self):
        return ("finite and exhaustive: all entries of both generated tables are checked by vm_compute reflection in the kernel; "
                "the two correspondence cases dump the evaluated Go InfoModel on both load paths (file absent / scripts/ipfix.elements "
                "installed via LoadExtElements) and compare all entries with the model; non-trivial = a dump with > 100 entries")

    def trusted_base(self):
        return ["Coq 8.16.1 kernel incl. vm_compute (finite reflection over 402+402 entries)",
                "translator extract/infomodel.go (go/ast walk of ipfix/rfc5102_model.go; yaml.v2 for scripts/ipfix.elements), validated each run against the evaluated Go map",
                "hand model of LoadExtElements in coq/Model/InfoModelDefs.v (load_ext), validated each run",
                "extraction (ExtrOcamlBasic) + ocaml/driver.ml; Go harness harness/cmd/impl/infomodel.go"]

    def assumptions(self):
        return ["'recognised type' = the 20 names of FieldTypes plus basicList/subTemplateList/subTemplateMultiList (RFC 6313 types both tables map to Unknown on purpose)",
                "the registry snapshot is coq/Pinned/InfoModel.v, frozen at the pinned commit"]


PROP = P()
