# C07 — sFlow samples and counters are decoded field-for-field.
import json
from props import sfgen
from props.common import hx


def first_diff(a, b, path=""):
    if type(a) != type(b):
        return "%s: %r vs %r" % (path, a, b)
    if isinstance(a, dict):
        for k in sorted(set(a) | set(b)):
            if k not in a or k not in b:
                return "%s.%s: %s" % (path, k, "missing in decoded" if k not in b else "unexpected in decoded")
            d = first_diff(a[k], b[k], path + "." + k)
            if d:
                return d
        return None
    if isinstance(a, list):
        if len(a) != len(b):
            return "%s: %d vs %d entries" % (path, len(a), len(b))
        for i, (x, y) in enumerate(zip(a, b)):
            d = first_diff(x, y, "%s[%d]" % (path, i))
            if d:
                return d
        return None
    return None if a == b else "%s: want %r got %r" % (path, a, b)


class P:
    id = "C07"
    filters = [()]

    def __init__(self):
        self.expect = {}
        self.seq = {}        # "sflowseq ..." line -> the single-datagram lines it is made of

    def budget(self, tier):
        return 1500 if tier == "quick" else 80000

    def cases(self, tier, rng, budget):
        out = []
        for i in range(budget):
            p, hdr, samples = sfgen.gen_datagram(rng, directed=(i % 3 == 0))
            # (C07 itself: no filter mostly; one datagram in eight goes through a "flow samples only" / "counters only" collector:
            #  what such a collector still delivers is decoded field-for-field all the same)
            for f in ([rng.choice([(1,), (2,)])] if rng.random() < 0.125 else self.filters) if len(self.filters) == 1 else [rng.choice(self.filters)]:
                line = "sflow %s%s" % ("".join("%d " % x for x in f), hx(p))
                self.expect[line] = (hdr, samples, f)
                out.append(line)
        # retention: SEVERAL datagrams are decoded first and encoded only afterwards (what a decoded datagram holds - the ICMP
        # rest-of-header octets in particular - must not live in storage that a later decode reuses)
        if len(self.filters) == 1:
            for i in range(max(10, budget // 30)):
                singles = []
                for _ in range(rng.choice([2, 3, 6])):
                    kinds = [rng.choice(["flow", "flow", "counter"]) for _ in range(rng.choice([1, 2, 3]))]
                    p, hdr, samples = sfgen.gen_datagram(rng, kinds=kinds)
                    l1 = "sflow %s" % hx(p)
                    self.expect[l1] = (hdr, samples, ())
                    singles.append(l1)
                line = "sflowseq " + " ".join(x.split(" ", 1)[1] for x in singles)
                self.seq[line] = singles
                out.append(line)
        return out

    def post(self, lines, impl, model):
        import vf
        need = [s1 for l in lines if l in self.seq for s1 in self.seq[l]]
        mo = dict(zip(need, vf.run_model(need))) if need else {}
        return impl, [(" ## ".join(mo[s1] for s1 in self.seq[l]) if l in self.seq else m) for l, m in zip(lines, model)]

    def judge(self, line, impl, model):
        if impl in ("PANIC", "HANG", "MARSHAL-ERROR") or impl.startswith("CRASH"):
            return "crashed: " + impl[:80]
        if line in self.seq:
            ip, mp = impl.split(" ## "), model.split(" ## ")
            if len(ip) != len(self.seq[line]):
                return "decoding %d datagrams and encoding them afterwards gave %d results" % (len(self.seq[line]), len(ip))
            for k, (s1, i1, m1) in enumerate(zip(self.seq[line], ip, mp)):
                v = self.judge(s1, i1, m1)
                if v:
                    return "datagram %d of %d, decoded first and encoded after the later ones were decoded: %s" % (k + 1, len(ip), v)
            return None
        e = self.expect.get(line)
        if e is not None:
            hdr, samples, f = e
            want = sfgen.expected_doc(hdr, samples, f)
            if want is None:
                if impl != "NONE":
                    return "a datagram without any supported (unfiltered) sample was published"
            else:
                if impl == "NONE":
                    kinds = [k for (_, k, _) in samples]
                    return "KIND:%s well-formed datagram (%s) was dropped" % ("enterprise" if "unknown-enterprise" in kinds else "drop", ",".join(kinds))
                try:
                    got = json.loads(impl)
                except Exception as ex:
                    return "output is not JSON: %s" % ex
                d = first_diff(want, got)
                if d:
                    return "decoded datagram differs from the wire values at %s" % d
        if impl != model:
            i = next((i for i, (x, y) in enumerate(zip(impl, model)) if x != y), min(len(impl), len(model)))
            return "model/implementation disagreement at offset %d: impl ...%r model ...%r" % (i, impl[max(0, i - 60):i + 40], model[max(0, i - 60):i + 40])
        return None

    def classify(self, line, impl, model):
        if line in self.seq:
            return ("sequence decoded first, encoded afterwards", line)
        e = self.expect.get(line)
        kinds = sorted(set(k for (_, k, _) in e[1])) if e else []
        return ("%s%s" % ("+".join(kinds), "" if model != "NONE" else " (nothing published)"), line if model != "NONE" else None)

    def tie_obligations(self):
        return 0

    def rule(self):
        return ("datagrams built from the sFlow v5 specification: 1-6 samples in any order of flow / counter / unknown format / "
                "non-standard enterprise; flow records: raw header (Ethernet with/without 802.1Q, IPv4, IPv6 x TCP/UDP/ICMP, header "
                "lengths up to 1500 with every XDR pad residue), extended switch, extended router (v4/v6), unknown records; counter "
                "records: the six supported kinds and unknown ones; v4/v6 agents; every third datagram uses pairwise distinct field "
                "values. The oracle's expectation comes from the abstract datagram, not from decoding. non-trivial = distinct datagram that publishes")

    def trusted_base(self):
        return ["Coq 8.16.1 kernel",
                "translator: the sFlow field sequences and struct field orders are regenerated (Gen/Layouts.v)",
                "hand model coq/Model/{Sflow,Packet}.v incl. bytes.Reader / binary.Read semantics, tied by this correspondence run",
                "encoding/json (the published bytes are its output; the model prints the tree it is specified to emit)",
                "Python generator/oracle lib/props/sfgen.py written from the sFlow v5 specification"]

    def assumptions(self):
        return ["Vlan is the 16-bit tag control word as on the wire; flow-sample SourceID is the source-id type octet",
                "a sample holds at most one record per kind (the last one wins), as the decoded structure can represent",
                "sampled headers outside Ethernet/IPv4/IPv6 + TCP/UDP/ICMP without IP options / extension headers are outside the quantifier"]


PROP = P()
