# C03 (IPFIX) / C06 (NetFlow v9): records decoded exactly as their templates describe.
# Structured stream from the Python encoder; oracle = RFC semantics over the abstract message.
import os, struct, re
import vf
from props.flowgen import Gen, Oracle, Tpl
from props.flowprop import SEP, go_model, parse_dgram, subst_floats, header_of, go_drop_rule
from props.common import hx, rand_addr


class FlowFidelity:
    def __init__(self, pid, proto):
        self.id, self.proto = pid, proto
        self.cmd = "ipfixh" if proto == "ipfix" else "nf9h"
        self.expect = {}

    def budget(self, tier):
        return 1500 if tier == "quick" else 60000

    # one structured history: templates announced (same or earlier message), then data
    def gen_case(self, g, rng):
        addr = rand_addr(rng)
        orc = Oracle(self.proto, g.model)
        ntpl = rng.choice([1, 1, 2, 3])
        tpls = []
        used = set()
        for _ in range(ntpl):
            # (one template in eight names an element the model does not have - an IANA id nobody assigned, or an ENTERPRISE element whose
            # id is a well-known IANA id: its data sets yield nothing and a non-fatal report, the neighbours decode)
            t, opts = g.rand_tpl(allow_missing=(rng.random() < 0.125))
            while t.tid in used:
                t.tid = rng.randint(256, 65535)
            used.add(t.tid)
            if g.min_rec_len(t) == 0:
                continue
            tpls.append((t, opts))
        if not tpls:
            t, opts = g.rand_tpl(nfields=2, allow_var=False)
            tpls.append((t, opts))
        if rng.random() < 0.3:
            # SIBLING templates: a second id whose definition differs from the first in ONE respect only (one element, one enterprise
            # number, one length, two neighbours swapped): same field count, same first field more often than not; their records
            # follow each other in one message, and each is decoded and published under its own template
            t0, o0 = tpls[0]
            t1, o1 = g.mutate_tpl(t0, o0, kind=rng.choice([0, 1, 1, 2, 3]))
            t1.tid = next(x for x in (t0.tid + 1, t0.tid + 32, 65000, 65001) if 255 < x < 65536 and x not in used)
            if g.min_rec_len(t1) > 0:
                tpls = [(t0, o0), (t1, o1)]
        msgs = []      # (bytes, abstract sets, per-data-set (records, lens, pad))
        same_msg = rng.random() < 0.4
        tsets, abstract1 = [], []
        # group templates into template sets by kind, in order
        if rng.random() < 0.5:
            # several template records in ONE template set (plain ones together, options ones together)
            for kind in (False, True):
                grp = [(t, o) for t, o in tpls if o == kind]
                if grp:
                    tsets.append(g.enc_set(g.tpl_set_id(kind), b"".join(g.enc_tpl(t, o) for t, o in grp),
                                           pad=rng.choice([0, 0, 0, 2]) if self.proto == "ipfix" else 0))
                    abstract1.append(("tpl", grp))
        else:
            for t, opts in tpls:
                tsets.append(g.enc_set(g.tpl_set_id(opts), g.enc_tpl(t, opts), pad=rng.choice([0, 0, 0, 2]) if self.proto == "ipfix" else 0))
                abstract1.append(("tpl", [(t, opts)]))
        dsets, abstract2, droprule = [], [], []
        for di in range(rng.choice([1, 1, 2, 3]) if len(tpls) != 2 else rng.choice([2, 3, 4])):
            t, opts = rng.choice(tpls) if len(tpls) != 2 else tpls[di % 2]
            nrec = rng.choice([1, 1, 2, 3, 5, 12])
            wires, vals, lens = b"", [], []
            for _ in range(nrec):
                w, v = g.rand_record(t)
                wires += w; vals.append(v); lens.append(len(w))
            mrl = g.min_rec_len(t)
            pad = rng.choice([p for p in (0, 0, 1, 2, 3) if p < max(1, mrl)])
            dsets.append(g.enc_set(t.tid, wires, pad=pad))
            abstract2.append(("data", t.tid, vals, lens, pad))
        hist = []
        if same_msg:
            hist.append((g.enc_msg(tsets + dsets), abstract1 + abstract2))
        else:
            hist.append((g.enc_msg(tsets), abstract1))
            hist.append((g.enc_msg(dsets), abstract2))
        toks, exp = [], []
        for p, abstract in hist:
            if len(p) > 65000:
                return self.gen_case(g, rng)
            toks += [hx(addr), hx(p)]
            recs, nf = orc.expected_sets(addr, abstract)
            # the implementation's padding rule, for the known-finding tag only
            sr = []
            o2 = Oracle(self.proto, g.model); o2.tpls = dict(orc.tpls)
            for s in abstract:
                if s[0] == "data":
                    r1, _ = o2.expected_sets(addr, [s])
                    sr.append((r1, s[3], s[4]) if len(r1) == len(s[3]) else (r1, [99] * len(r1), 0))
            exp.append({"recs": recs, "nf": nf, "header": header_of(self.proto, p), "go_rule": go_drop_rule(sr)})
        line = self.cmd + " " + " ".join(toks)
        self.expect[line] = exp
        return line

    def gen_typeinfo(self, g, rng):
        """RFC 5610 type information: an exporter DESCRIBES information elements in options data records (privateEnterpriseNumber,
        informationElementId, informationElementDataType, informationElementName) - for an enterprise element, for IANA elements, for
        ids with the enterprise bit set.  These are data records like any other; what another (or the same) exporter's templates
        mean afterwards is what the information model says, not what some exporter claimed"""
        import struct
        from props.flowgen import Tpl, MINLEN
        orc = Oracle(self.proto, g.model)
        a, b = rand_addr(rng), rand_addr(rng)
        ti = Tpl(500, [(346, 0, 4), (303, 0, 2)], [(339, 0, 1), (341, 0, 65535)])
        victims = rng.sample([8, 12, 1, 2, 4, 7, 11, 27, 56, 152, 10, 14], 4)
        wires, vals, lens = b"", [], []
        for (pen, eid) in [(0, 0x8000 | victims[0]), (0, victims[1]), (29305, 0x8000 | 7), (0, 0x8000 | victims[2]), (0, victims[2])]:
            name = rng.choice([b"x", b"sourceIPv4Address", b"octetDeltaCount", b"myElement"])
            v = [struct.pack(">I", pen), struct.pack(">H", eid), bytes([rng.choice([0, 1, 1, 2, 13, 18, 19])]), name]
            w = v[0] + v[1] + v[2] + bytes([len(name)]) + name
            wires += w; vals.append(v); lens.append(len(w))
        tv = Tpl(256, [], [(e, 0, MINLEN.get(g.model[(0, e)][1], 0) or 4) for e in victims])
        hist = [(a, [g.enc_set(g.tpl_set_id(True), g.enc_tpl(ti, True)), g.enc_set(500, wires)], [("tpl", [(ti, True)]), ("data", 500, vals, lens, 0)])]
        for who in (b, a):
            s_, ab = self.data_of(g, rng, tv)
            hist.append((who, [g.enc_set(g.tpl_set_id(False), g.enc_tpl(tv, False)), s_], [("tpl", [(tv, False)]), ab]))
        toks, exp = [], []
        for addr, sets, abstract in hist:
            p = g.enc_msg(sets)
            toks += [hx(addr), hx(p)]
            recs, nf = orc.expected_sets(addr, abstract)
            exp.append({"recs": recs, "nf": nf, "header": header_of(self.proto, p), "go_rule": recs})
        line = self.cmd + " " + " ".join(toks)
        self.expect[line] = exp
        return line

    def gen_custom(self, rng):
        """a SITE's own ipfix.elements (the shipped file with some IANA elements given another abstract data type, plus a vendor
        element) installed in the configuration directory: records are decoded as the templates describe under THAT model - the
        file is the information model once it is loaded, for IANA elements as for any other"""
        import re as _re
        from props.flowgen import Tpl, TEST_EXT, U8, U16, U32, U64, OCTETS, MAC, IP4, STRING
        text = open(os.path.join(vf.REPO, "scripts", "ipfix.elements")).read()
        base = {k: v for k, v in go_model().items() if k not in TEST_EXT}
        over = rng.sample([(89, "unsigned8", U8), (56, "octetArray", OCTETS), (8, "unsigned32", U32), (4, "unsigned16", U16), (7, "unsigned32", U32),
                           (1, "unsigned32", U32), (12, "octetArray", OCTETS), (10, "unsigned64", U64), (82, "octetArray", OCTETS)], 4)
        model = dict(base)
        for eid, name, code in over:
            text, n = _re.subn(r"(\n  %d:\n  - \S+\n  - )\S+" % eid, lambda m: m.group(1) + name, text, count=1)
            if n != 1:
                return None
            model[(0, eid)] = (eid, code)
        text += "9:\n  1001:\n  - siteCounter\n  - unsigned16\n"
        model[(9, 1001)] = (1001, U16)
        g = Gen(self.proto, model, rng)
        orc = Oracle(self.proto, model)
        addr = rand_addr(rng)
        fields = [(eid, 0, {U8: 1, U16: 2, U32: 4, U64: 8, OCTETS: 6}.get(code, 4)) for eid, _, code in over] + [(2, 0, 8)]
        if self.proto == "ipfix":
            fields.append((1001, 9, 2))
        t = Tpl(256, [], fields)
        t2, o2 = self.big_tpl(g, rng, 257)
        hist = [([g.enc_set(g.tpl_set_id(False), g.enc_tpl(t, False)), g.enc_set(g.tpl_set_id(o2), g.enc_tpl(t2, o2))], [("tpl", [(t, False)]), ("tpl", [(t2, o2)])])]
        sets, abstract = [], []
        for tt in (t, t2, t):
            s_, ab = self.data_of(g, rng, tt)
            sets.append(s_); abstract.append(ab)
        hist.append((sets, abstract))
        toks, exp = [], []
        for sets, abstract in hist:
            p = g.enc_msg(sets)
            toks += [hx(addr), hx(p)]
            recs, nf = orc.expected_sets(addr, abstract)
            exp.append({"recs": recs, "nf": nf, "header": header_of(self.proto, p), "go_rule": recs})
        line = "imcustom %s %s %s" % (self.proto, hx(text.encode()), " ".join(toks))
        self.expect[line] = exp
        self.custom_model_lines = getattr(self, "custom_model_lines", set()) | {line}
        return line

    def big_tpl(self, g, rng, tid, opts=None):
        while True:
            t, o = g.rand_tpl(tid=tid, opts=opts, allow_var=(rng.random() < 0.3))
            if g.min_rec_len(t) > 4:
                return t, o

    def data_of(self, g, rng, t):
        wires, vals, lens = b"", [], []
        for _ in range(rng.choice([1, 2, 3])):
            w, v = g.rand_record(t)
            wires += w; vals.append(v); lens.append(len(w))
        return g.enc_set(t.tid, wires), ("data", t.tid, vals, lens, 0)

    # "sandwich": within ONE message, data for id X, then a (re)definition of X (template or options template, fresh or
    # differing in one respect only), then data for X again - the latest definition must be in force at once, and nothing
    # remembered about X earlier in the message may survive the redefinition
    def gen_sandwich(self, g, rng):
        addr = rand_addr(rng)
        orc = Oracle(self.proto, g.model)
        tid = rng.choice([256, 257, 300, 999, 65535, rng.randint(256, 65535)])
        t1, o1 = self.big_tpl(g, rng, tid)
        hist = []
        known_before = rng.random() < 0.6
        if known_before:
            hist.append(([g.enc_set(g.tpl_set_id(o1), g.enc_tpl(t1, o1))], [("tpl", [(t1, o1)])]))
        sets, abstract = [], []
        cur = (t1, o1) if known_before else None
        for _ in range(rng.choice([1, 2, 3])):
            # data for X under what is in force now (unknown id: any octets, must yield nothing)
            if cur is not None:
                s_, a_ = self.data_of(g, rng, cur[0]); sets.append(s_); abstract.append(a_)
            else:
                body = bytes(rng.randrange(256) for _ in range(rng.choice([8, 12, 20])))
                sets.append(g.enc_set(tid, body)); abstract.append(("raw", tid, body))
            # the redefinition
            if cur is not None and rng.random() < 0.6:
                t2, o2 = g.mutate_tpl(cur[0], cur[1])
                if g.min_rec_len(t2) <= 4:
                    t2, o2 = self.big_tpl(g, rng, tid)
            else:
                t2, o2 = self.big_tpl(g, rng, tid, opts=rng.random() < 0.6)
            sets.append(g.enc_set(g.tpl_set_id(o2), g.enc_tpl(t2, o2))); abstract.append(("tpl", [(t2, o2)]))
            cur = (t2, o2)
        s_, a_ = self.data_of(g, rng, cur[0]); sets.append(s_); abstract.append(a_)
        hist.append((sets, abstract))
        if rng.random() < 0.5:     # and the definition stays in force for the next message
            s_, a_ = self.data_of(g, rng, cur[0]); hist.append(([s_], [a_]))
        toks, exp = [], []
        for sets_, abstract_ in hist:
            p = g.enc_msg(sets_)
            if len(p) > 65000:
                return self.gen_sandwich(g, rng)
            toks += [hx(addr), hx(p)]
            recs, nf = orc.expected_sets(addr, abstract_)
            exp.append({"recs": recs, "nf": nf, "header": header_of(self.proto, p), "go_rule": recs})
        line = self.cmd + " " + " ".join(toks)
        self.expect[line] = exp
        return line

    def cases(self, tier, rng, budget):
        g = Gen(self.proto, go_model(), rng)
        out = [self.gen_typeinfo(g, rng) if (self.proto == "ipfix" and i % 40 == 7) else self.gen_sandwich(g, rng) if i % 6 == 5 else self.gen_case(g, rng)
               for i in range(budget)]
        out += [l for l in (self.gen_custom(rng) for _ in range(4 if tier == "quick" else 60)) if l]
        return out

    def post(self, lines, impl, model):
        return impl, subst_floats(model)

    def judge(self, line, impl, model):
        if "PANIC" in impl or "HANG" in impl or impl.startswith("CRASH"):
            return "decoder crashed or hung on a well-formed history: " + impl[-80:]
        exp = self.expect.get(line)
        got = [parse_dgram(o) for o in impl.split(SEP)]
        if exp is not None:
            if len(got) != len(exp):
                return "history of %d datagrams produced %d results" % (len(exp), len(got))
            for k, (e, g) in enumerate(zip(exp, got)):
                if g["kind"] != "MSG":
                    return "datagram %d: well-formed message rejected (%s)" % (k, g["kind"])
                if g["header"] != e["header"]:
                    return "datagram %d: header fields differ from the wire: want %s got %s" % (k, e["header"], g["header"])
                if g["recs"] != e["recs"]:
                    if g["recs"] == e["go_rule"]:
                        return "KNOWN:last-record-le4: datagram %d: the final record(s) of a data set are dropped when <= 4 octets of the set remain (want %d records, got %d)" % (k, len(e["recs"]), len(g["recs"]))
                    bad = [(i, w, x) for i, (w, x) in enumerate(zip(e["recs"], g["recs"])) if w != x]
                    return "datagram %d: decoded records differ from what the templates describe: want %d records got %d; first difference %s" % (k, len(e["recs"]), len(g["recs"]), bad[:1])
        # the published message is an observation point of this property as far as the STRUCTURE goes: one entry per decoded record, and
        # per record the field ids in template order (values and JSON syntax are C05's business; a text that does not parse is left to it)
        for k, g in enumerate(got):
            if g.get("kind") == "MSG" and g.get("json", "-").startswith("x"):
                try:
                    import json as _json
                    doc = _json.loads(bytes.fromhex(g["json"][1:]).decode("utf-8", "replace"))
                    pub = [[f.get("I") for f in rec] for rec in doc.get("DataSets") or []]
                except Exception:
                    continue
                dec = [[int(f.split("/")[0]) for f in rec.split(",") if f] for rec in g["recs"]]
                if pub != dec:
                    j = next((i for i, (a, b) in enumerate(zip(dec, pub)) if a != b), min(len(dec), len(pub)))
                    return ("datagram %d: the published message does not carry the decoded records under their template's field ids: %d records decoded, %d published; "
                            "record %d decoded with ids %s, published with ids %s" % (k, len(dec), len(pub), j, dec[j] if j < len(dec) else None, pub[j] if j < len(pub) else None))
        strip = lambda o: SEP.join(re.sub(r" J:\S+$", "", x) for x in o.split(SEP))   # the JSON text is C05's business
        if line in getattr(self, "custom_model_lines", ()):
            return None      # (the executable model has no site file; the oracle built from the file has decided above)
        if strip(impl) != strip(model):
            return "model/implementation disagreement: impl %r model %r" % (strip(impl)[:400], strip(model)[:400])
        return None

    def tags(self, line, impl, model, v):
        return ["last-record-le4"] if v.startswith("KNOWN:last-record-le4") else []

    def classify(self, line, impl, model):
        got = [parse_dgram(o) for o in model.split(SEP)]
        n = sum(g.get("n", 0) for g in got)
        return ("records=%s" % ("0" if n == 0 else "1-4" if n < 5 else "5+"), line if n > 0 else None)

    def tie_obligations(self):
        return 3

    def rule(self):
        return ("structured histories from the Python encoder: 1-3 templates (plain/options, IANA + installed enterprise elements, "
                "fixed, reduced-size, over-long and 65535 variable-length fields with 1- and 3-octet prefixes), announced in the same "
                "or an earlier message, then 1-3 data sets of 1-12 records with 0-3 padding octets (less than the record length); "
                "4-byte, v4-mapped and IPv6 exporters; every sixth history is a 'sandwich': inside one message data for id X, a (re)definition of X "
                "(template or options template; fresh, or differing from the previous one in one respect only), data for X again, up to three "
                "times. non-trivial = distinct history whose model outcome carries >= 1 record")

    def trusted_base(self):
        return ["Coq 8.16.1 kernel",
                "hand model coq/Model/%s.v + Flow.v + Cache.v of the decoder, tied by this correspondence run" % ("Ipfix" if self.proto == "ipfix" else "Nf9"),
                "translator: header layouts and JSON header pieces regenerated (Gen/Layouts.v, Gen/JsonPieces.v), information model regenerated (Gen/InfoModel.v)",
                "Python encoder/oracle lib/props/flowgen.py written from RFC 7011 / RFC 3954",
                "extraction (ExtrOcamlBasic) + ocaml/driver.ml; Go harness harness/cmd/impl/flow.go"]

    def assumptions(self):
        return ["values longer than the type's size are interpreted from their leading octets (as the code does); only the shorter-than-type case is fixed by the property",
                "enterprise elements are installed on both sides from one fixed list (a deployment installs them via ipfix.elements)"]


PROP = FlowFidelity("C03", "ipfix")
