# C12 — a published message depends only on its own datagram.   (C13 reuses the cases.)
# The REAL worker functions run on the real channels and buffer pools (in-package verif driver) with
# a delayed consumer; the published multiset (1 worker: sequence) and the counters are compared with
# the sequential per-datagram model (decode + encode of that datagram alone, templates pre-installed).
import re, json, collections
import vf
from props.flowgen import Gen, Tpl, TEST_EXT
from props.flowprop import go_model, _float_cache
from props import sfgen, c08 as v5mod
from props.c01 import mutate
from props.common import hx, rand_addr

PAT = re.compile(rb"@F(32|64):(\d+)@")


def subst_payload(hexs):
    raw = bytes.fromhex(hexs)
    need = [(int(w), int(b)) for w, b in PAT.findall(raw) if (int(w), int(b)) not in _float_cache]
    if need:
        res = vf.run_impl(["floatfmt %d x%s" % (w, b.to_bytes(8, "big").hex()) for (w, b) in need], shards=1)
        for k, r in zip(need, res):
            _float_cache[k] = r.encode()
    return PAT.sub(lambda m: _float_cache[(int(m.group(1)), int(m.group(2)))], raw).hex()


class P:
    id = "C12"

    def __init__(self):
        self.cj = {}
        self.nworkers = {}

    def budget(self, tier):
        return 40 if tier == "quick" else 1500

    def flow_case(self, proto, g, rng, workers):
        exporters = [rand_addr(rng) for _ in range(rng.choice([1, 2, 4]))]
        tpls = {}
        pre = []
        for a in exporters:
            for tid in rng.sample([256, 257, 300, 999], rng.choice([1, 2])):
                while True:
                    t, o = g.rand_tpl(tid=tid, allow_var=(rng.random() < 0.4))
                    if g.min_rec_len(t) > 4:
                        break
                tpls[(a, tid)] = (t, o)
                pre.append((a, g.enc_msg([g.enc_set(g.tpl_set_id(o), g.enc_tpl(t, o))])))
        dgrams = []
        for _ in range(rng.choice([20, 60, 150, 300])):
            (a, tid), (t, o) = rng.choice(list(tpls.items()))
            k = rng.random()
            if k < 0.68:      # decodable data of mixed sizes
                sets = [g.enc_set(tid, b"".join(g.rand_record(t)[0] for _ in range(rng.choice([1, 1, 3, 10]))))
                        for _ in range(rng.choice([1, 1, 2]))]
                p = g.enc_msg(sets)
            elif k < 0.76:    # a set that can not be decoded (unknown template) next to one that can: non-fatal error AND records
                sets = [g.enc_set(7777, bytes(rng.randrange(256) for _ in range(12))), g.enc_set(tid, g.rand_record(t)[0])]
                if rng.random() < 0.5:
                    sets.reverse()
                p = g.enc_msg(sets)
            elif k < 0.8:     # template-only (re-announcement of the SAME definition: schedule independent)
                p = g.enc_msg([g.enc_set(g.tpl_set_id(o), g.enc_tpl(t, o))])
            elif k < 0.9:     # undecodable: unknown template id
                p = g.enc_msg([g.enc_set(7777, bytes(rng.randrange(256) for _ in range(16)))])
            else:             # malformed
                p = mutate(rng, g.enc_msg([g.enc_set(tid, g.rand_record(t)[0])]))
                # keep templates out of malformed datagrams (a mutated template set would make the result order dependent)
                if p[16 if proto == "ipfix" else 20:][:2] in (b"\x00\x02", b"\x00\x03", b"\x00\x00", b"\x00\x01"):
                    p = p[:10]
            if len(p) <= 1400:
                dgrams.append((a, p))
        if rng.random() < 0.5:
            # the N-th occurrence: the SAME datagram 12-20 times in a row, for a decodable one, a partially decodable one (unknown
            # template next to a good set: records AND a non-fatal error), an unknown-template one and a malformed one
            (a, tid), (t, o) = rng.choice(list(tpls.items()))
            good = g.enc_set(tid, g.rand_record(t)[0])
            kinds = [g.enc_msg([good], seq=11), g.enc_msg([g.enc_set(7777, bytes(12)), good], seq=12),
                     g.enc_msg([g.enc_set(7777, bytes(16))], seq=13), g.enc_msg([good], seq=14)[:21]]
            for q in rng.sample(kinds, 2):
                k = rng.randrange(len(dgrams) + 1)
                dgrams[k:k] = [(a, q)] * rng.choice([12, 16, 20])
        if workers == 1 or rng.random() < 0.6:
            # template refreshes as exporters really send them: the template set IN FRONT of the data set of the same datagram, the
            # same records several times over (only the header's sequence number differs): every one of them yields records, so
            # every one of them is published (the definition is the cached one: independent of the schedule)
            (a, tid), (t, o) = rng.choice(list(tpls.items()))
            body = [g.enc_set(g.tpl_set_id(o), g.enc_tpl(t, o)), g.enc_set(tid, b"".join(g.rand_record(t)[0] for _ in range(rng.choice([1, 2, 5]))))]
            run = [(a, g.enc_msg(body, seq=1000 + i)) for i in range(rng.choice([3, 6, 10]))]
            if len(run[0][1]) <= 1400:
                k = rng.randrange(len(dgrams) + 1)
                if rng.random() < 0.5:
                    dgrams[k:k] = run
                else:       # ... with other traffic in between
                    for q in run:
                        dgrams.insert(min(k, len(dgrams)), q)
                        k += rng.choice([1, 2, 4])
        if workers == 1 and tpls and not getattr(self, "no_redef", False):
            # a RE-DEFINITION of a template id by a template of the SAME wire length (one element replaced, two neighbours swapped), then
            # data for it: one datagram at a time, so that the receive buffer that carried the old definition carries the new one
            (a, tid), (t, o) = rng.choice(list(tpls.items()))
            t2, o2 = g.mutate_tpl(t, o, kind=rng.choice([1, 2]))
            if o2 == o and len(g.enc_tpl(t2, o2)) == len(g.enc_tpl(t, o)) and g.min_rec_len(t2) > 4 and all(ln != 65535 for _, _, ln in t2.specs()):
                k = rng.randrange(len(dgrams) + 1)
                seq = [(a, g.enc_msg([g.enc_set(g.tpl_set_id(o), g.enc_tpl(t, o))])), (a, g.enc_msg([g.enc_set(g.tpl_set_id(o2), g.enc_tpl(t2, o2))]))]
                seq += [(a, g.enc_msg([g.enc_set(tid, g.rand_record(t2)[0])])) for _ in range(3)]
                seq += [(a, g.enc_msg([g.enc_set(g.tpl_set_id(o), g.enc_tpl(t, o))]))]      # and back, so that the rest of the history is as before
                dgrams[k:k] = [d for d in seq if len(d[1]) <= 1400]
        if rng.random() < 0.5:
            # pool hygiene: a run of SHORT datagrams that publish nothing (every early exit of the worker), then LONG data
            (a, tid), (t, o) = rng.choice(list(tpls.items()))
            run = []
            for _ in range(rng.choice([8, 16, 32])):
                kind = rng.randrange(5)
                if kind == 0:
                    q = g.enc_msg([g.enc_set(g.tpl_set_id(o), g.enc_tpl(t, o))])           # template only (same definition)
                elif kind == 1:
                    q = g.enc_msg([g.enc_set(7777, bytes(rng.randrange(256) for _ in range(8)))])   # unknown template
                elif kind == 2:
                    q = bytes(rng.randrange(256) for _ in range(rng.choice([1, 5, 10])))     # not even a header
                elif kind == 3:
                    q = b"\x00\x07" + g.enc_msg([])[2:]                                      # wrong version
                else:
                    q = g.enc_msg([])                                                        # header only
                run.append((a, q))
            for _ in range(rng.choice([4, 8])):
                body = b""
                while len(body) + g.min_rec_len(t) < 1200:
                    w = g.rand_record(t)[0]
                    if len(body) + len(w) > 1300:
                        break
                    body += w
                if body:
                    run.append((a, g.enc_msg([g.enc_set(tid, body)])))
            k = rng.randrange(len(dgrams) + 1)
            dgrams[k:k] = [d for d in run if len(d[1]) <= 1400]
        return pre, dgrams

    def case(self, proto, g, rng, repeat_to=None, force_mirror=False):
        workers = rng.choice([1, 1, 2, 4, 16, 64]) if not force_mirror else rng.choice([2, 4])
        filt = []
        if proto in ("ipfix", "nf9"):
            pre, dgrams = self.flow_case(proto, g, rng, workers)
        elif proto == "nf5":
            pre, dgrams = [], []
            for _ in range(rng.choice([20, 100, 300])):
                _, a, p = v5mod.PROP.gen_case(rng).split()
                dgrams.append((bytes.fromhex(a[1:]), bytes.fromhex(p[1:])[:1400]))
            if rng.random() < 0.5:
                import struct as _st
                a0 = rand_addr(rng)
                run = [(a0, rng.choice([bytes(rng.randrange(256) for _ in range(rng.choice([1, 10, 23]))),           # too short
                                        _st.pack(">HH", 9, 1) + bytes(20), _st.pack(">HH", 5, 0) + bytes(20),          # wrong version / no flows
                                        _st.pack(">HH", 5, 3) + bytes(20 + 48)]))                                      # announces more flows than it has
                       for _ in range(rng.choice([8, 16, 32]))]
                big = [(a0, _st.pack(">HH", 5, 28) + bytes(rng.randrange(256) for _ in range(20 + 28 * 48))) for _ in range(rng.choice([4, 8]))]
                k = rng.randrange(len(dgrams) + 1)
                dgrams[k:k] = run + big
        else:
            pre, dgrams = [], []
            filt = rng.choice([[], [], [1], [2]])
            for _ in range(rng.choice([20, 100, 250])):
                p, _, _ = sfgen.gen_datagram(rng) if rng.random() < 0.8 else sfgen.gen_datagram(rng, kinds=[rng.choice(["flow", "counter"]) for _ in range(rng.choice([5, 6, 8]))])
                if rng.random() < 0.15:
                    p = mutate(rng, p)
                if len(p) <= 1400:
                    dgrams.append((rand_addr(rng), p))
            if rng.random() < 0.5:
                # short datagrams that decode but publish nothing (only filtered / unsupported samples), short garbage, then long ones
                only = {1: ["flow"], 2: ["counter"]}.get(filt[0] if filt else 0, [])
                run = []
                for _ in range(rng.choice([8, 16, 32])):
                    kinds = [rng.choice(only + ["unknown", "unknown-enterprise"]) for _ in range(rng.choice([1, 1, 2]))]
                    q = sfgen.gen_datagram(rng, kinds=kinds)[0] if rng.random() < 0.8 else bytes(rng.randrange(256) for _ in range(rng.choice([3, 20, 30])))
                    run.append((rand_addr(rng), q))
                for _ in range(rng.choice([4, 8])):
                    q = sfgen.gen_datagram(rng, kinds=[rng.choice(["flow", "counter"]) for _ in range(6)])[0]
                    if len(q) <= 1400:
                        run.append((rand_addr(rng), q))
                k = rng.randrange(len(dgrams) + 1)
                dgrams[k:k] = [d for d in run if len(d[1]) <= 1400]
        if repeat_to:
            # mostly datagrams that publish nothing (the producer queue also holds 1000 only and is not drained either), then the rest
            if proto == "sflow":
                quiet = sfgen.gen_datagram(rng, kinds=["unknown", "unknown-enterprise"])[0]
            else:
                quiet = g.enc_msg([g.enc_set(7777, bytes(16))])
            dgrams = [(rand_addr(rng), quiet)] * (repeat_to - min(len(dgrams), 150)) + dgrams[:150]
        maxlen = max([len(p) for _, p in dgrams] + [1])
        udpsize = rng.choice([1500, 1500, maxlen, 9000])
        line = "pipe %s F %s P %s G %s" % (proto, " ".join(map(str, filt)), " ".join("%s %s" % (hx(a), hx(p)) for a, p in pre),
                                           " ".join("%s %s" % (hx(a), hx(p)) for a, p in dgrams))
        self.cj[line] = {"cmd": "pipeline", "proto": proto, "workers": workers, "udpsize": udpsize, "mirror": (force_mirror or rng.random() < 0.3) and proto in ("ipfix", "sflow"),
                         "ext_elements": [[pen, eid, ty] for (pen, eid), (fid, ty) in sorted(TEST_EXT.items())],
                         "pre": [[a.hex(), p.hex()] for a, p in pre], "dgrams": [[a.hex(), p.hex()] for a, p in dgrams], "filter": filt,
                         "procs": 1 if workers == 1 else 0,
                         "verbose": rng.random() < 0.3}     # the -verbose option on (what is logged must not touch what is published)    # one worker on one P: a buffer Put into the pool is the next one the receive loop Gets
        self.nworkers[line] = workers
        return line

    def cases(self, tier, rng, budget):
        gens = {p: Gen(p, go_model(), rng) for p in ("ipfix", "nf9")}
        out = []
        for i in range(budget):
            proto = ["ipfix", "nf9", "nf5", "sflow"][i % 4]
            out.append(self.case(proto, gens.get(proto), rng))
        # mirroring on and MORE datagrams than the mirror queue holds (1000; nothing drains it in the driver): the path taken when
        # the copy for the mirror cannot be queued must not disturb what is decoded, counted and published
        for proto in ("ipfix", "sflow"):
            line = self.case(proto, gens.get(proto), rng, repeat_to=1150, force_mirror=True)
            out.append(line)
            # ... and once more with ONE worker on one P (every buffer handed back is then seen again by the receive loop and by the
            # inspection of the pool afterwards)
            line = self.case(proto, gens.get(proto), rng, repeat_to=1100, force_mirror=True)
            c = self.cj[line]
            c["workers"], c["procs"] = 1, 1
            self.nworkers[line] = 1
            out.append(line)
        # the OTHER pipelines' outgoing queues are full (their producers have stalled): this pipeline publishes as if they were not there
        for proto in ("ipfix", "nf9", "nf5", "sflow"):
            line = self.case(proto, gens.get(proto), rng)
            self.cj[line]["fill_others"] = True
            out.append(line)
        # the producer has STALLED (this pipeline's outgoing queue is full when the datagrams arrive) and wakes up twice in between: what
        # is published late must still be its own datagram's decode (a message kept back and encoded later must not have lived in a
        # receive buffer that was reused meanwhile); how MANY are published is not judged here (a full queue drops)
        for proto in ("ipfix", "nf9", "nf5", "sflow"):
            line = self.case(proto, gens.get(proto), rng)
            c = self.cj[line]
            n = len(c["dgrams"])
            # the consumer takes everything off at (at most 40) evenly spread points and the queue is filled up again but for two
            # places: the datagram after a wake-up finds room, the ones after that find the queue full again
            step = max(2, n // 40)
            c.update({"fill_own": True, "drain_after": list(range(0, n, step)), "refill_room": 2, "workers": 1, "procs": 1, "mirror": False})
            self.nworkers[line] = 1
            self.content_only.add(line)
            out.append(line)
        # workers RETIRED before the datagrams arrive (their quit channel is closed while they wait for work, as the dynamic
        # scaling does after a burst): the remaining workers process everything; a retired worker must not take a datagram with it
        for proto in ("ipfix", "nf9", "nf5", "sflow"):
            # (these run with FOUR workers whatever was drawn: nothing in them may depend on the order in which datagrams are processed)
            self.no_redef = True
            try:
                line = self.case(proto, gens.get(proto), rng)
            finally:
                self.no_redef = False
            c = self.cj[line]
            c["workers"], c["retire"], c["procs"] = 4, rng.choice([1, 2, 3]), 0
            self.nworkers[line] = 4
            out.append(line)
        return out

    def extra(self, tier, rng, known):
        """the same pipelines with 8 workers under the Go race detector: two workers that touch the same memory while they
        process different datagrams (a shared scratch buffer, a shared cache without a lock) are reported whatever the schedule"""
        if self.id != "C12":
            return {"violations": [], "coverage": {}}
        ok, out = vf.build_race_driver()
        if not ok:
            return {"violations": [{"cases": [], "no_failing_input": True, "verdict": "race-detector build of the pipeline driver failed: " + out[-300:]}], "coverage": {}}
        picks = {}
        for l, c in self.cj.items():
            if len(c["dgrams"]) <= 400:
                picks.setdefault((c["proto"], bool(c["mirror"])), (l, c))
        cases = [dict(c, workers=8, procs=0) for _, c in picks.values()]
        if tier != "quick":
            cases += [dict(c, workers=8, procs=0) for l, c in list(self.cj.items())[:60] if len(c["dgrams"]) <= 400]
        res = vf.run_driver(cases, timeout=900, race=True)
        viol = []
        for c, r in zip(cases, res):
            if "DATA RACE" in (r.get("error") or ""):
                viol.append({"cases": [json.dumps(c)[:20000]], "verdict": "8 %s workers processing different datagrams access the same memory without synchronisation (Go race detector): what is "
                             "published for one datagram can depend on another that is processed at the same time: %s" % (c["proto"], r["error"][-800:])})
                break
        return {"violations": viol, "coverage": {"race_detector_pipeline_cases": len(cases)},
                "notes": ["%d pipeline cases re-run with 8 workers under the race detector" % len(cases)]}

    def run_impl(self, lines):
        res = vf.run_driver([self.cj[l] for l in lines], timeout=1800)
        out = []
        for l, r in zip(lines, res):
            if r.get("error"):
                out.append("DRIVER-ERROR " + r["error"][:300]); continue
            pubs = r.get("published") or []
            if self.cj[l]["proto"] == "sflow":
                pubs = [re.sub(rb'"ColTime":\d+\}$', b'"ColTime":0}', bytes.fromhex(x)).hex() for x in pubs]
            if self.nworkers[l] > 1:
                pubs = sorted(pubs)
            out.append("PUB %s UDP=%d DEC=%d" % (",".join(pubs), r["udp_count"], r["decoded_count"]) + (" DUPBUF=%d" % r["duplicate_buffers"] if r.get("duplicate_buffers") else "")
                       + (" SHORTBUF=%d" % r["short_buffers"] if r.get("short_buffers") else ""))
        return out

    def post(self, lines, impl, model):
        out = []
        for l, m in zip(lines, model):
            items = m.split(" ") if m else []
            pubs = [subst_payload(x.split("/")[0][1:]) for x in items if x.startswith("x")]
            dec = sum(1 for x in items if x.endswith("/D1"))
            if self.nworkers[l] > 1:
                pubs = sorted(pubs)
            out.append("PUB %s UDP=%d DEC=%d" % (",".join(pubs), len(self.cj[l]["dgrams"]), dec))
        return impl, out

    def split(self, o):
        m = re.match(r"PUB (\S*) UDP=(\d+) DEC=(\d+)$", o)
        return (m.group(1).split(",") if m.group(1) else [], int(m.group(2)), int(m.group(3))) if m else None

    def judge(self, line, impl, model):
        if impl.startswith("DRIVER-ERROR"):
            return impl
        short = dup = None
        if " SHORTBUF=" in impl:
            impl, short = impl.rsplit(" SHORTBUF=", 1)
        if " DUPBUF=" in impl:
            impl, dup = impl.rsplit(" DUPBUF=", 1)
        v = self.judge2(line, impl, model)
        if v is None and dup and self.id == "C12":
            return ("after this sequence the same receive buffer is in the pool %s time(s) more than once (it was handed back while the datagram in it was "
                    "still being processed, and again afterwards): the next datagrams are received into memory that another datagram still occupies, so "
                    "what is published for one of them is not what its own octets decode to" % dup)
        if v is None and short and self.id == "C12":
            return ("after this sequence the receive-buffer pool holds %s buffer(s) shorter than max-udp-size (%d): the receive loop reads the next "
                    "datagrams into them, so a later longer datagram is truncated and what is published for it is not what its own octets decode to"
                    % (short, self.cj[line]["udpsize"]))
        return v

    def judge2(self, line, impl, model):
        a, b = self.split(impl), self.split(model)
        if a is None or b is None:
            return "unparseable result: %r / %r" % (impl[:100], model[:100])
        ca, cb = collections.Counter(a[0]), collections.Counter(b[0])
        alien = [x for x in ca if x not in cb]
        if alien:
            x = bytes.fromhex(alien[0])
            # nearest expected payload, to show what got mixed in
            near = min(cb, key=lambda y: sum(1 for p, q in zip(bytes.fromhex(y), x) if p != q) + abs(len(y) // 2 - len(x))) if cb else ""
            return ("a published message is not what decoding any single datagram of the history on its own produces (workers=%d, udpsize=%d): "
                    "%r ; nearest expected %r" % (self.nworkers[line], self.cj[line]["udpsize"], x[:160], bytes.fromhex(near)[:160]))
        return self.judge_counts(line, a, b, ca, cb)

    def judge_counts(self, line, a, b, ca, cb):
        # C12 proper: content only.  (multiplicities and counters are C13's)
        return None

    content_only = set()

    def classify(self, line, impl, model):
        c = self.cj[line]
        b = self.split(model)
        return ("%s workers=%d published=%s" % (c["proto"], c["workers"], "0" if not b or not b[0] else "1+"), line)

    def tie_obligations(self):
        return 0

    def rule(self):
        return ("per case: one protocol pipeline, 1/2/4/16/64 real workers, 20-300 datagrams of mixed sizes from 1-4 exporters (decodable, "
                "template-only, unknown-template, malformed; sFlow with type filters), pool buffers of 1500 octets, 9000, or exactly the "
                "largest datagram; in half of the cases a run of 8-32 short datagrams that publish nothing (each early exit of the worker) followed by "
                "4-8 near-maximal ones (pool hygiene; the pool is inspected afterwards); mirroring on in 30% of the IPFIX/sFlow cases; templates pre-installed so that the expected multiset is "
                "schedule independent; the outgoing queue is read only after all datagrams were processed. non-trivial = every case")

    def trusted_base(self):
        return ["Coq 8.16.1 kernel",
                "hand model coq/Model/Pipeline.v (ownership of receive buffers / encode buffers across receive loop, workers, queues)",
                "in-package verif driver vflow/verif_pipeline_test.go: runs the REAL worker functions on the real channels and pools; only the three-line body of the receive loop is emulated",
                "Go channels, sync.Pool, atomics and the memory model (modelled, not verified); the schedules actually taken are sampled"]

    def assumptions(self):
        return ["partial: channel / sync.Pool / atomic semantics are modelled; the non-atomic stop flag and *MirrorEnabled booleans are outside the model",
                "sFlow's ColTime (collection time) is excluded from the comparison"]


PROP = P()
