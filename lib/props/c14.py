# C14 — the producer delivers every message once, unmodified and in order (raw socket).
# The REAL producer.Run against a localhost sink that closes / resets after a chosen number of
# lines and listens again after a chosen downtime.
import re
from props.common import hx


class P:
    id = "C14"

    def __init__(self):
        self.meta = {}

    def budget(self, tier):
        return 60 if tier == "quick" else 1500

    def rand_msg(self, rng, i):
        k = rng.random()
        head = ('{"n":%d,' % i).encode()
        if k < 0.3:
            body = rng.choice([b'"p":"100%d %% done"', b'"p":"%s%v%!%"', b'"p":"%"', b'"x":"50%"', b'"fmt":"%5.2f %x %%%"', b'"a":"%[1]d"'])
        elif k < 0.45:
            body = b'"big":"' + bytes(rng.choice(b"abcdefghijklmnopqrstuvwxyz0123456789 %") for _ in range(rng.choice([1000, 4095, 4096, 4097, 9000, 40000]))) + b'"'
        elif k < 0.6:
            body = b'"bin":"' + bytes(rng.choice([x for x in range(1, 256) if x != 10]) for _ in range(rng.randrange(1, 60))) + b'"'
        else:
            body = b'"v":"' + bytes(rng.choice(b"abc%xyz") for _ in range(rng.randrange(0, 40))) + b'"'
        return head + body + b"}"

    def cases(self, tier, rng, budget):
        out = []
        for i in range(budget):
            k = i % 6
            proto = "udp" if k == 5 else "tcp"
            retry = rng.choice([0, 1, 2, 3])
            faults, gap = [], 0
            n = rng.choice([1, 5, 30])
            if proto == "tcp" and k in (2, 3, 4):
                gap = 3
                nf = rng.choice([1, 1, 2])
                faults = [(rng.randrange(0, 8), rng.choice([0, 1]), rng.choice([0, 0, 30, 120])) for _ in range(nf)]
                n = sum(f[0] for f in faults) + int(sum(f[2] for f in faults) / gap) + 12 * nf + 25
            msgs = [self.rand_msg(rng, j) for j in range(n)]
            if proto == "udp":
                # one datagram per message: keep them within a datagram and pace them so that the sink's socket buffer can not overflow
                msgs = [m for m in msgs if len(m) < 9000]
                gap = 2
            line = "producer %s %d %d F %s M %s" % (proto, retry, gap, " ".join("%d %d %d" % f for f in faults), " ".join(hx(m) for m in msgs))
            self.meta[line] = (proto, retry, gap, faults, msgs)
            out.append(line)
        return out

    def judge(self, line, impl, model):
        proto, retry, gap, faults, msgs = self.meta[line]
        if "PANIC" in impl or "HANG" in impl or not impl.startswith("LINES"):
            return "producer crashed or hung: " + impl[-120:]
        m = re.match(r"LINES (.*?) ?\| EC=(\d+) \| CONNS=(\d+)", impl)
        got = [bytes.fromhex(x[1:]) for x in m.group(1).split(" ") if x]
        ec = int(m.group(2))
        index = {mm + b"\n": j for j, mm in enumerate(msgs)}
        last = -1
        for g in got:
            if g not in index:
                near = min(msgs, key=lambda mm: abs(len(mm) + 1 - len(g)) + (0 if mm[:12] == g[:12] else 1000))
                return "the sink received %r..., which is not a message handed to the producer plus a newline (closest: %r...)" % (g[:70], near[:70])
            if index[g] <= last:
                return "message %d was delivered %s" % (index[g], "twice" if index[g] == last else "out of order")
            last = index[g]
        if not faults:
            if len(got) != len(msgs):
                return "%d of %d messages were delivered although the sink never failed" % (len(got), len(msgs))
            if ec != 0:
                return "MQErrorCount=%d without any failure" % ec
            want = model[len("LINES "):].split(" ") if len(model) > 6 else []
            if [bytes.fromhex(x[1:]) for x in want] != got:
                return "model/implementation disagreement on the delivered stream"
        else:
            lost = len(msgs) - len(got)
            bound = sum(4 + retry + int(f[2] / max(gap, 1)) + 2 for f in faults)
            if lost > bound:
                return "%d messages lost around %d sink failure(s) (bound %d; retry-max %d)" % (lost, len(faults), bound, retry)
            if last != len(msgs) - 1:
                return "delivery did not resume after the sink came back: the last message delivered is %d of %d (retry-max %d, faults %s)" % (last, len(msgs) - 1, retry, faults)
        return None

    def classify(self, line, impl, model):
        proto, retry, gap, faults, msgs = self.meta[line]
        return ("%s retry=%d faults=%d" % (proto, retry, len(faults)), line)

    def tie_obligations(self):
        return 0

    def rule(self):
        return ("per case: tcp (5/6) or udp (1/6) raw-socket producer, retry-max 0..3, 1-100 messages with printf verbs (%d %% %! %[1]d), "
                "multi-kilobyte bodies (1000..40000 octets, incl. 4095/4096/4097), arbitrary octets; half of the tcp cases make the sink "
                "close (FIN) or reset (RST) after 0-7 lines, once or twice, with 0/30/120 ms downtime, messages handed over 3 ms apart. "
                "Checked: every received line is a handed-over message + newline, strictly increasing order, nothing twice; no faults => "
                "all delivered and no error counted (and equal to the model's stream); faults => bounded loss and the LAST message arrives")

    def trusted_base(self):
        return ["Coq 8.16.1 kernel",
                "hand model coq/Model/Producer.v of the send/retry loop over a fault oracle (a failed Write delivered nothing; a nil Write delivered the whole line or lost it)",
                "Go harness harness/cmd/impl/producer.go: real producer.Run + faulting localhost sink",
                "the kernel's TCP behaviour after FIN/RST (which error the next writes return)"]

    def assumptions(self):
        return ["partial: which fault outcomes the kernel produces for a given sink behaviour is runtime behaviour; the model quantifies over all fault schedules, the harness samples them",
                "Kafka / NSQ / NATS producers are modelled only up to handing the unchanged message to the client library (no broker can run here)"]


PROP = P()
