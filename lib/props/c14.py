# C14 — the producer delivers every message once, unmodified and in order (raw socket).
# The REAL producer.Run against a localhost sink that closes / resets after a chosen number of
# lines and listens again after a chosen downtime.
import re, hashlib
from props.common import hx


def gen_msg(seed, j, size):
    """the j-th synthetic message of a pstall run: the same octets as genMsg in harness/cmd/impl/pstall.go"""
    x = (seed * 2654435761 + j * 40503) & 0xffffffff
    n = (size + (j * 37) % 1000) // 9
    pad = "".join(["%08x%s" % ((x + i) & 0xffffffff, "%" if i % 64 == 7 else ".") for i in range(n)])
    return ('{"seq":%d,"pad":"%s"}' % (j, pad)).encode()


def json_like(rng, i, n):
    """a message of about n octets that looks like what the workers queue"""
    pad = bytes(rng.choice(b"abcdefghijklmnopqrstuvwxyz0123456789.:") for _ in range(max(0, n - 24)))
    return ('{"n":%d,"pad":"' % i).encode() + pad + b'"}'


def digest(b):
    return "%d:%s:%s" % (len(b), hashlib.sha1(b).hexdigest()[:16], b[:24].hex())


def kernel_buffer_octets():
    try:
        w = int(open("/proc/sys/net/ipv4/tcp_wmem").read().split()[2])
        r = int(open("/proc/sys/net/ipv4/tcp_rmem").read().split()[2])
        return w + r
    except Exception:
        return 64 << 20


class P:
    id = "C14"

    def __init__(self):
        self.meta = {}

    def budget(self, tier):
        return 60 if tier == "quick" else 1500

    def rand_msg(self, rng, i):
        k = rng.random()
        head = ('{"n":%d,' % i).encode()
        if k < 0.3:
            body = rng.choice([b'"p":"100%d %% done"', b'"p":"%s%v%!%"', b'"p":"%"', b'"x":"50%"', b'"fmt":"%5.2f %x %%%"', b'"a":"%[1]d"'])
        elif k < 0.45:
            body = b'"big":"' + bytes(rng.choice(b"abcdefghijklmnopqrstuvwxyz0123456789 %") for _ in range(rng.choice([1000, 4095, 4096, 4097, 9000, 40000]))) + b'"'
        elif k < 0.6:
            body = b'"bin":"' + bytes(rng.choice([x for x in range(1, 256) if x != 10]) for _ in range(rng.randrange(1, 60))) + b'"'
        else:
            body = b'"v":"' + bytes(rng.choice(b"abc%xyz") for _ in range(rng.randrange(0, 40))) + b'"'
        return head + body + b"}"

    def stall_cases(self, tier, rng):
        """backpressure: the sink stays connected but stops reading while megabytes are handed over, so that the producer is
        blocked in the MIDDLE of a message; it then resumes, or resets the connection, or reads part of a message and resets"""
        out = []
        shapes = [(80, 100000), (300, 30000), (40, 400000)]
        scripts = [(0, "R%(a)d S300 X"), (1, "R%(a)d S300"), (2, "R%(a)d S300 B%(k)d X"), (3, "R%(a)d S300 X R%(b)d S400 X"),
                   (4, "S300 F"), (5, "R%(a)d S300 R%(b)d S300"), (6, "R%(a)d S6500"), (7, "R%(a)d S6500 X")]
        long_stalls = [] if tier == "quick" else ["R%(a)d S12000", "R%(a)d S35000", "R%(a)d S2500", "R%(a)d S1200 B%(k)d S1200"]
        reps = 1 if tier == "quick" else 6
        for rep in range(reps):
            for si, sc in scripts + [(8 + i, x) for i, x in enumerate(long_stalls if rep == 0 else [])]:
                if rep > 0 and si in (6, 7):
                    continue          # the multi-second stalls once per run
                n, size = shapes[(si + rep) % 3] if tier != "quick" else shapes[si % 3]
                retry = (si + rep) % 4 if si != 0 else 2
                script = sc % {"a": rng.randrange(0, 6), "b": rng.randrange(1, 6), "k": rng.choice([1, 4096, 70000, 131072])}
                seed = rng.randrange(1, 1 << 30)
                line = "pstall %d %d %d %d %s" % (retry, seed, n, size, script)
                self.meta[line] = ("stall", retry, seed, n, size, script)
                out.append(line)
        return out

    def info(self, line):
        """the case description, rebuilt from the line itself when it comes from a replay file or the corpus"""
        if line in self.meta:
            return self.meta[line]
        f = line.split(" ")
        if f[0] == "pstall":
            return ("stall", int(f[1]), int(f[2]), int(f[3]), int(f[4]), " ".join(f[5:]))
        if f[0] == "ptwo":
            ai, bi = f.index("A"), f.index("B")
            return ("two", 0, 0, [], [[bytes.fromhex(x[1:]) for x in f[ai + 1:bi]], [bytes.fromhex(x[1:]) for x in f[bi + 1:]]])
        if f[0] == "pmove":
            return ("move", int(f[1]), int(f[2]), [], [bytes.fromhex(x[1:]) for x in f[f.index("M") + 1:]])
        fi, mi = f.index("F"), f.index("M")
        fs = [int(x) for x in f[fi + 1:mi]]
        return (f[1], int(f[2]), int(f[3]), [tuple(fs[i:i + 3]) for i in range(0, len(fs), 3)], [bytes.fromhex(x[1:]) for x in f[mi + 1:]])

    def run_impl(self, lines):
        import vf
        return vf.run_impl(lines, shards=8)

    def judge_stall(self, line, impl):
        _, retry, seed, n, size, script = self.info(line)
        if "PANIC" in impl or "RUN=" in impl or not impl.startswith("C1"):
            return "producer crashed or hung against a stalling sink: " + impl[-160:]
        n += 8           # the trailing messages handed over once the sink is through its script
        msgs = [gen_msg(seed, j, size) + b"\n" for j in range(n)]
        index = {digest(m): j for j, m in enumerate(msgs)}
        parts = impl.split(" | ")
        ec = int([p for p in parts if p.startswith("EC=")][0][3:])
        nconn = int([p for p in parts if p.startswith("CONNS=")][0][6:])
        last, delivered = -1, 0
        for p in parts:
            if not re.match(r"C\d+( |$)", p):
                continue
            toks = [t for t in p.split(" ")[1:] if t]
            for ti, t in enumerate(toks):
                if t.startswith("P"):
                    ln_ = int(t[1:].split(":")[0])
                    if ti != len(toks) - 1:
                        return "octets without a newline in the middle of a connection's stream"
                    if not any(ln_ < len(m) and digest(m[:ln_]) == t[1:] for m in msgs[last + 1:]):
                        return ("connection %s ended with %d octets (starting %r) that are not the beginning of a message handed over after message %d"
                                % (p.split(" ")[0], ln_, bytes.fromhex(t.split(":")[2]), last))
                    continue
                if t not in index:
                    return ("the sink received a line of %s octets starting %r, which is not a message handed to the producer plus a newline (script %s, retry-max %d)"
                            % (t.split(":")[0], bytes.fromhex(t.split(":")[2]), script, retry))
                if index[t] <= last:
                    return "message %d was delivered %s" % (index[t], "twice" if index[t] == last else "out of order")
                last = index[t]
                delivered += 1
        faults = script.count("X") + script.count("F")
        if faults == 0:
            if delivered != n or ec != 0 or nconn != 1:
                return ("the sink only stalled (the connection never broke), yet %d of %d messages were delivered, MQErrorCount=%d, %d connection(s) (script %s)"
                        % (delivered, n, ec, nconn, script))
        else:
            if last != n - 1:
                return "delivery did not resume after the sink reset the connection: the last message delivered is %d of %d (retry-max %d, script %s)" % (last, n - 1, retry, script)
            lost_octets = sum(len(m) for m in msgs) - sum(len(msgs[index[t]]) for p in parts if re.match(r"C\d+ ", p) for t in p.split(" ")[1:] if t in index)
            bound = faults * (kernel_buffer_octets() + (1 << 21) + (retry + 3) * max(len(m) for m in msgs))
            if lost_octets > bound:
                return "%d octets of messages lost around %d reset(s); the kernel can hold at most %d per connection" % (lost_octets, faults, bound)
        return None

    def cases(self, tier, rng, budget):
        out = self.stall_cases(tier, rng)
        for i in range(budget):
            k = i % 6
            proto = "udp" if k == 5 else "tcp"
            retry = rng.choice([0, 1, 2, 3])
            faults, gap = [], 0
            n = rng.choice([1, 5, 30])
            if proto == "tcp" and k in (2, 3, 4):
                gap = 3
                nf = rng.choice([1, 1, 2])
                faults = [(rng.randrange(0, 8), rng.choice([0, 1]), rng.choice([0, 0, 30, 120])) for _ in range(nf)]
                n = sum(f[0] for f in faults) + int(sum(f[2] for f in faults) / gap) + 12 * nf + 25
            msgs = [self.rand_msg(rng, j) for j in range(n)]
            if proto == "udp":
                # one datagram per message: keep them within a datagram and pace them so that the sink's socket buffer can not overflow
                msgs = [m for m in msgs if len(m) < 9000]
                gap = 2
            line = "producer %s %d %d F %s M %s" % (proto, retry, gap, " ".join("%d %d %d" % f for f in faults), " ".join(hx(m) for m in msgs))
            self.meta[line] = (proto, retry, gap, faults, msgs)
            out.append(line)
        # a producer that has been UP for a while (10.5 s, idle) before its sink breaks the connection for the first time: reconnecting is
        # not something that only works during the first seconds of a producer's life
        for i in range(1 if tier == "quick" else 3):
            retry = rng.choice([1, 2])
            faults = [(rng.randrange(2, 6), rng.choice([0, 1]), 0)]
            msgs = [self.rand_msg(rng, j) for j in range(40)]
            line = "producer tcp@10500 %d 3 F %s M %s" % (retry, " ".join("%d %d %d" % f for f in faults), " ".join(hx(m) for m in msgs))
            self.meta[line] = ("tcp", retry, 3, faults, msgs)
            out.append(line)
        # a BURST towards a udp sink: 40 messages of 1-3 kB handed over at once (more than one datagram can carry, more than any buffer a
        # writer might put in front of the socket): one datagram per message, each exactly the message and a newline
        for i in range(2 if tier == "quick" else 10):
            msgs = [m for m in (self.rand_msg(rng, j) for j in range(60)) if 800 < len(m) < 3500][:40]
            while len(msgs) < 40:
                msgs.append(json_like(rng, len(msgs), rng.randrange(900, 3000)))
            line = "producer udp %d 0 F  M %s" % (rng.choice([0, 2]), " ".join(hx(m) for m in msgs))
            self.meta[line] = ("udp", 0, 0, [], msgs)
            out.append(line)
        # TWO producers in one process (vflow runs one per protocol), each with its own configuration and sink, tcp and udp
        for i in range(2 if tier == "quick" else 8):
            pa, pb = rng.choice([("tcp", "tcp"), ("tcp", "udp"), ("udp", "tcp")])
            ma = [json_like(rng, j, rng.randrange(20, 400)) for j in range(rng.choice([6, 15]))]
            mb = [json_like(rng, 1000 + j, rng.randrange(20, 400)) for j in range(rng.choice([6, 15]))]
            line = "ptwo %s %s %d %d A %s B %s" % (pa, pb, rng.choice([0, 2]), rng.choice([1, 3]), " ".join(hx(m) for m in ma), " ".join(hx(m) for m in mb))
            self.meta[line] = ("two", 0, 0, [], [ma, mb])
            out.append(line)
        # the sink is configured by NAME; the name has two addresses; the sink goes away and a standby takes over under the same name
        # on the other address: "the sink is reachable again" is meant as the configuration names it
        for i in range(3 if tier == "quick" else 12):
            retry = rng.choice([0, 1, 2, 3])
            msgs = [self.rand_msg(rng, j) for j in range(rng.choice([24, 45]))]
            line = "pmove %d %d M %s" % (retry, 4, " ".join(hx(m) for m in msgs))
            self.meta[line] = ("move", retry, 4, [], msgs)
            out.append(line)
        return out

    def judge_two(self, line, impl):
        _, _, _, _, (ma, mb) = self.info(line)
        if impl.startswith("SINK-ERROR"):
            return None
        if "PANIC" in impl or "HANG" in impl or not impl.startswith("A "):
            return "producers crashed or hung: " + impl[-120:]
        m = re.match(r"A (.*?) ?\| B (.*?) ?\| EC=(\d+),(\d+)", impl)
        for name, got_s, want, other in (("first", m.group(1), ma, mb), ("second", m.group(2), mb, ma)):
            got = [bytes.fromhex(x[1:]) for x in got_s.split(" ") if x]
            exp = [x + b"\n" for x in want]
            if got != exp:
                foreign = [g for g in got if g in [x + b"\n" for x in other]]
                return ("two raw-socket producers in one process, each with its own configuration and sink: the sink of the %s producer received %d of the %d "
                        "messages handed to that producer%s (MQErrorCount %s,%s)" % (name, len([g for g in got if g in exp]), len(exp),
                        (" and %d message(s) that were handed to the OTHER producer" % len(foreign)) if foreign else "", m.group(3), m.group(4)))
        return None

    def judge_move(self, line, impl):
        _, retry, gap, _, msgs = self.info(line)
        if impl.startswith("SINK-ERROR"):
            return None          # the environment would not give the sink its sockets: nothing is said about the producer
        if "PANIC" in impl or "HANG" in impl or not impl.startswith("LINES"):
            return "producer crashed or hung: " + impl[-120:]
        m = re.match(r"LINES (.*?) ?\| EC=(\d+) \| MOVED_AFTER=(\d+)", impl)
        got = [bytes.fromhex(x[1:]) for x in m.group(1).split(" ") if x]
        index = {mm + b"\n": j for j, mm in enumerate(msgs)}
        last = -1
        for g in got:
            if g not in index:
                return "the sink received %r..., which is not a message handed to the producer plus a newline" % g[:70]
            if index[g] <= last:
                return "message %d was delivered %s" % (index[g], "twice" if index[g] == last else "out of order")
            last = index[g]
        lost = len(msgs) - len(got)
        if last != len(msgs) - 1:
            return ("the sink (configured by name, two addresses) went away after %s lines and came back under the same name on its other address: delivery did "
                    "not resume: the last message delivered is %d of %d, MQErrorCount=%s (retry-max %d)" % (m.group(3), last, len(msgs) - 1, m.group(2), retry))
        if lost > 8 + 2 * retry:
            return "%d messages lost around the move of the sink to its other address (retry-max %d)" % (lost, retry)
        return None

    def judge(self, line, impl, model):
        if self.info(line)[0] == "stall":
            return self.judge_stall(line, impl)
        if self.info(line)[0] == "move":
            return self.judge_move(line, impl)
        if self.info(line)[0] == "two":
            return self.judge_two(line, impl)
        proto, retry, gap, faults, msgs = self.info(line)
        if "RUN=dial_" in impl and faults and faults[0][0] == 0:
            return None      # the sink reset the very first connection while it was being set up: the producer never started (setup error)
        if "PANIC" in impl or "HANG" in impl or not impl.startswith("LINES"):
            return "producer crashed or hung: " + impl[-120:]
        m = re.match(r"LINES (.*?) ?\| EC=(\d+) \| CONNS=(\d+)", impl)
        got = [bytes.fromhex(x[1:]) for x in m.group(1).split(" ") if x]
        ec = int(m.group(2))
        index = {mm + b"\n": j for j, mm in enumerate(msgs)}
        last = -1
        for g in got:
            if g not in index:
                near = min(msgs, key=lambda mm: abs(len(mm) + 1 - len(g)) + (0 if mm[:12] == g[:12] else 1000))
                return "the sink received %r..., which is not a message handed to the producer plus a newline (closest: %r...)" % (g[:70], near[:70])
            if index[g] <= last:
                return "message %d was delivered %s" % (index[g], "twice" if index[g] == last else "out of order")
            last = index[g]
        if not faults:
            if len(got) != len(msgs):
                return "%d of %d messages were delivered although the sink never failed" % (len(got), len(msgs))
            if ec != 0:
                return "MQErrorCount=%d without any failure" % ec
            want = model[len("LINES "):].split(" ") if len(model) > 6 else []
            if [bytes.fromhex(x[1:]) for x in want] != got:
                return "model/implementation disagreement on the delivered stream"
        else:
            lost = len(msgs) - len(got)
            # the downtimes as they really were (reported by the sink; a loaded machine stretches the nominal ones)
            md = re.search(r"DOWN=([\d,]+)", impl)
            real = [int(x) for x in md.group(1).split(",")] if md else []
            extra_down = max(0, sum(real) - sum(f[2] for f in faults))
            bound = sum(8 + 2 * retry + int(f[2] / max(gap, 1)) + 2 for f in faults) + int(extra_down / max(gap, 1))
            if lost > bound:
                return "%d messages lost around %d sink failure(s) (bound %d; retry-max %d)" % (lost, len(faults), bound, retry)
            if last != len(msgs) - 1:
                return "delivery did not resume after the sink came back: the last message delivered is %d of %d (retry-max %d, faults %s)" % (last, len(msgs) - 1, retry, faults)
        return None

    def classify(self, line, impl, model):
        if self.info(line)[0] == "move":
            return ("tcp sink by name, moves to its other address", line if impl.startswith("LINES") else None)
        if self.info(line)[0] == "two":
            return ("two producers, two sinks (%s)" % " ".join(line.split(" ")[1:3]), line if impl.startswith("A ") else None)
        if self.info(line)[0] == "stall":
            return ("tcp stalling sink: " + re.sub(r"\d+", "N", self.info(line)[5]), line)
        proto, retry, gap, faults, msgs = self.info(line)
        return ("%s retry=%d faults=%d" % (proto, retry, len(faults)), line)

    def tie_obligations(self):
        return 1      # C14_send_loop_is_the_modelled_one over Gen/RawSocket.v

    def rule(self):
        return ("per case: tcp (5/6) or udp (1/6) raw-socket producer, retry-max 0..3, 1-100 messages with printf verbs (%d %% %! %[1]d), "
                "multi-kilobyte bodies (1000..40000 octets, incl. 4095/4096/4097), arbitrary octets; half of the tcp cases make the sink "
                "close (FIN) or reset (RST) after 0-7 lines, once or twice, with 0/30/120 ms downtime, messages handed over 3 ms apart. "
                "Checked: every received line is a handed-over message + newline, strictly increasing order, nothing twice; no faults => "
                "all delivered and no error counted (and equal to the model's stream); faults => bounded loss and the LAST message arrives. "
                "BACKPRESSURE (pstall): 4-12 MB of 30-400 kB messages handed over at once to a scripted sink that stops reading for "
                "0.3 s (and once 6.5 s; thorough also 1.2/2.5/12/35 s) so that the producer is blocked in the MIDDLE of a message, then "
                "resumes / resets the connection / reads part of a message and resets, once or twice; per connection every complete line "
                "must be a handed-over message (sha1), strictly increasing, the unterminated tail a proper prefix of a later message; "
                "stall only => everything delivered, MQErrorCount 0, one connection; resets => the last message arrives and the octets "
                "lost fit the kernel's socket buffers")

    def trusted_base(self):
        return ["Coq 8.16.1 kernel",
                "hand model coq/Model/Producer.v of the send/retry loop over a fault oracle (a failed Write delivered nothing; a nil Write delivered the whole line or lost it)",
                "hand model coq/Model/ProducerConn.v: the same loop with PARTIAL writes per connection, under the assumption dead_ok (a connection that returned an error stays failed: kernel TCP without deadlines)",
                "translator /verif/extract/rawsocket.go (go/ast): write form, retry loop, methods called on the connection -> Gen/RawSocket.v",
                "Go harness harness/cmd/impl/producer.go: real producer.Run + faulting localhost sink",
                "the kernel's TCP behaviour after FIN/RST (which error the next writes return)"]

    def assumptions(self):
        return ["partial: which fault outcomes the kernel produces for a given sink behaviour is runtime behaviour; the model quantifies over all fault schedules, the harness samples them",
                "Kafka / NSQ / NATS producers are modelled only up to handing the unchanged message to the client library (no broker can run here)"]


PROP = P()
