# C01 — no datagram can crash the collector.  Malformed / adversarial stream for every protocol,
# outcome class (ok / rejected / PANIC / HANG) and decoded content compared with the model.
# C02 reuses this stream and adds the work/memory bounds.
import re, struct
import vf
from props.flowgen import Gen, Tpl
from props.flowprop import SEP, go_model, parse_dgram, subst_floats
from props.common import hx, rand_addr
from props import c08 as v5mod
from props import sfgen

BOUNDARY16 = [0, 1, 2, 3, 4, 5, 8, 255, 256, 0x7fff, 0x8000, 0xfffe, 0xffff]


def mutate(rng, p):
    """one adversarial mutation of a well-formed datagram"""
    if not p:
        return p
    b = bytearray(p)
    k = rng.random()
    if k < 0.3:      # target a 16-bit field (set/template header fields live at even offsets)
        off = rng.randrange(0, max(1, len(b) - 1)) & ~1
        if off + 2 <= len(b):
            cur = int.from_bytes(b[off:off + 2], "big")
            v = rng.choice(BOUNDARY16 + [cur + 1, cur - 1, cur + 4, cur - 4, len(b), len(b) - off]) & 0xffff
            b[off:off + 2] = v.to_bytes(2, "big")
    elif k < 0.45:   # truncate
        b = b[:rng.randrange(0, len(b) + 1)]
    elif k < 0.6:    # flip a few bytes
        for _ in range(rng.choice([1, 1, 2, 4])):
            b[rng.randrange(len(b))] = rng.randrange(256)
    elif k < 0.7:    # append garbage
        b += bytes(rng.randrange(256) for _ in range(rng.choice([1, 3, 4, 5, 20])))
    elif k < 0.8:    # duplicate a slice
        i = rng.randrange(len(b)); j = rng.randrange(i, len(b))
        b = b[:j] + b[i:j] + b[j:]
    elif k < 0.9:    # 32-bit field
        off = rng.randrange(0, max(1, len(b) - 3)) & ~3
        if off + 4 <= len(b):
            b[off:off + 4] = rng.choice([0, 1, 7, 8, 11, 12, 0xffffffff, 0x7fffffff, 0x80000000, 1500, 1501]).to_bytes(4, "big")
    else:            # delete a slice
        i = rng.randrange(len(b)); j = rng.randrange(i, min(len(b), i + 12) + 1)
        b = b[:i] + b[j:]
    return bytes(b)


def _fnv1_32(b):
    h = 0x811c9dc5
    for x in b:
        h = ((h * 0x01000193) & 0xffffffff) ^ x
    return h


def adversarial_tpl(g, rng, tid):
    """templates the decoders must survive: zero fields, zero-length fields, 65535-length fixed fields,
    scope count > field count, elements missing from the model"""
    k = rng.random()
    if k < 0.2:
        return Tpl(tid, [], []), rng.random() < 0.3
    if k < 0.45:
        # zero-length fields: of known elements, of elements missing from the model, and of both (a record then consumes nothing)
        n = rng.choice([1, 2, 5])
        pool = rng.choice([[1, 2, 8, 4, 152, 210], [40001, 31000, 39999], [1, 40001, 8, 31000]])
        return Tpl(tid, [], [(rng.choice(pool), 0, 0) for _ in range(n)]), False
    if k < 0.6:
        return Tpl(tid, [], [(rng.choice([1, 8, 4, 27, 56]), 0, rng.choice([65535, 65534, 30000]))]), False
    if k < 0.75:
        t, o = g.rand_tpl(tid=tid, allow_missing=True)
        return t, o
    if k < 0.85:
        t, _ = g.rand_tpl(tid=tid, opts=True)
        t.scope = t.scope + t.fields; t.fields = []
        return t, True
    t, o = g.rand_tpl(tid=tid)
    return t, o


class FlowRobust:
    """shared by C01 and C02"""
    protos = ["ipfix", "nf9", "nf5", "sflow"]

    def __init__(self, pid):
        self.id = pid

    def budget(self, tier):
        return 1200 if tier == "quick" else 60000

    def flow_case(self, proto, g, rng):
        cmd = "ipfixh" if proto == "ipfix" else "nf9h"
        addr = rand_addr(rng)
        toks = []
        ntp = rng.choice([1, 1, 2])
        tpls = []
        for _ in range(ntp):
            tid = rng.choice([256, 257, 300, 65535, rng.randint(256, 65535)])
            tpls.append(adversarial_tpl(g, rng, tid))
        tsets = [g.enc_set(g.tpl_set_id(o), g.enc_tpl(t, o)) for t, o in tpls]
        m1 = g.enc_msg(tsets)
        if rng.random() < 0.3:
            m1 = mutate(rng, m1)
        toks += [hx(addr), hx(m1)]
        # data for those templates: well-formed length when possible, else raw bodies
        dsets = []
        for _ in range(rng.choice([1, 2, 3])):
            t, o = rng.choice(tpls)
            k = rng.random()
            if k < 0.5 and all(ln not in (65534, 30000) and (ln != 65535 or g.model.get((pen, eid), (0, 0))[1] in (13, 14)) for (eid, pen, ln) in t.specs()):
                body = b"".join(g.rand_record(t)[0] for _ in range(rng.choice([1, 2, 5])))
            else:
                body = bytes(rng.randrange(256) for _ in range(rng.choice([0, 1, 4, 5, 8, 36, 100])))
            sid = t.tid if rng.random() < 0.8 else rng.choice([0, 1, 2, 3, 4, 5, 255, 256, 9999])
            dsets.append(g.enc_set(sid, body, pad=rng.choice([0, 0, 1, 3]), length=None if rng.random() < 0.8 else rng.choice(BOUNDARY16)))
        m2 = g.enc_msg(dsets)
        for _ in range(rng.choice([0, 1, 1, 2])):
            m2 = mutate(rng, m2)
        toks += [hx(addr if rng.random() < 0.9 else rand_addr(rng)), hx(m2)]
        if rng.random() < 0.2:   # a third, purely random datagram with a plausible header
            body = bytes(rng.randrange(256) for _ in range(rng.choice([0, 3, 4, 5, 8, 40, 200])))
            toks += [hx(addr), hx(g.enc_msg([body]))]
        return cmd + " " + " ".join(toks)

    def v5_case(self, rng):
        p5 = v5mod.PROP
        line = p5.gen_case(rng)
        if rng.random() < 0.5:
            _, a, p = line.split()
            line = "nf5 %s %s" % (a, hx(mutate(rng, bytes.fromhex(p[1:]))))
        return line

    def sflow_case(self, rng):
        import struct
        k = rng.random()
        filt = rng.choice(["", "", "1 ", "2 ", "1 2 "])
        if k < 0.25:
            # directed: one flow sample with one record whose declared length / header length is hostile
            kind = rng.choice(["router", "vlan", "hdrlen", "counts", "skiplen"])
            if kind == "skiplen":
                # a sample that is SKIPPED (filtered, unsupported type, foreign enterprise) by its declared length: lengths that are
                # negative as a 32-bit signed number, with a sample count that allows (nearly) endless repetition
                l = rng.choice([0xfffffff8, 0xfffffff0, 0xfffffffc, 0x80000000, 0xffffffff, 0x7fffffff, 0xfffffff4])
                tag = rng.choice([3, 4, 5, 77, (4413 << 12) | 1, (1 << 12) | 2, 1, 2])
                ns = rng.choice([0xffffffff, 0x7fffffff, 1000000, 3])
                filt = rng.choice(["", "1 ", "2 ", "1 2 ", "3 "]) if tag not in (1, 2) else "%d " % tag
                p = (struct.pack(">II", 5, 1) + bytes([10, 0, 0, 1]) + struct.pack(">IIII", 0, 1, 2, ns) + struct.pack(">II", tag, l)
                     + bytes(rng.randrange(256) for _ in range(rng.choice([0, 8, 16, 64]))))
                return "sflow %s%s" % (filt, hx(p))
            if kind == "router":
                l = rng.choice(list(range(0, 33)) + [0xffffffff, 0x7fffffff, 1000])
                body = bytes(rng.randrange(256) for _ in range(rng.choice([0, 4, 8, 12, 20, 28, 40])))
                rec = struct.pack(">II", 1002, l) + body
            elif kind == "vlan":
                hl = rng.choice([12, 13, 14, 15, 16, 17, 18, 19, 22])
                hdr = bytes(12) + b"\x81\x00" + bytes(rng.randrange(256) for _ in range(40))
                hdr = hdr[:hl]
                rec = struct.pack(">II", 1, 16 + len(hdr)) + struct.pack(">IIII", 1, 100, 0, hl) + hdr + bytes((4 - hl % 4) % 4)
            elif kind == "hdrlen":
                hl = rng.choice([0, 1, 1499, 1500, 1501, 0xffffffff, 0x80000000, 65536])
                rec = struct.pack(">II", 1, 16) + struct.pack(">IIII", rng.choice([1, 11, 12, 5]), 100, 0, hl) + bytes(rng.randrange(256) for _ in range(rng.choice([0, 4, 60])))
            else:
                rec = b""
            nrec = 1 if kind != "counts" else rng.choice([0, 2, 0xffffffff, 0x10000, 4000000, 0x1fffffff])
            fs = struct.pack(">IIIIIIII", 1, 0, 1, 1, 0, 1, 2, nrec) + rec
            ns = 1 if kind != "counts" else rng.choice([1, 2, 0xffffffff])
            styp, slen = 1, len(fs)
            if kind == "counts" and rng.random() < 0.5:
                # a counter sample with a hostile record count
                fs = struct.pack(">III", 1, 2, nrec) + rec
                styp, slen = 2, len(fs)
            if kind == "counts":
                # ... and a DECLARED sample length that 'confirms' the count (a bound taken from the wire instead of from the octets received)
                slen = rng.choice([slen, slen, 0xfffffff0, 0x7ffffff0, (nrec * 8) & 0xffffffff, (nrec * 8 + 32) & 0xffffffff])
            p = struct.pack(">II", 5, 1) + bytes([10, 0, 0, 1]) + struct.pack(">IIII", 0, 1, 2, ns) + struct.pack(">II", styp, slen) + fs
        else:
            p, _, _ = sfgen.gen_datagram(rng)
            for _ in range(rng.choice([0, 1, 1, 2])):
                p = mutate(rng, p)
        return "sflow %s%s" % (filt, hx(p))

    def type_sweep(self, proto, g, rng):
        """every abstract data type at every encoded length 0..9, 16, 17 (Interpret's length guard and the fixed-width reads
        behind it): one element per type, a template [8-octet field, that element at that length], two records"""
        cmd = "ipfixh" if proto == "ipfix" else "nf9h"
        by_type = {}
        for (pen, eid), (fid, ty) in sorted(g.model.items()):
            if pen == 0 and 0 < eid < 32768:
                by_type.setdefault(ty, eid)
        out = []
        for ty, eid in sorted(by_type.items()):
            for ln in (0, 1, 2, 3, 4, 5, 6, 7, 8, 9, 16, 17):
                addr = rand_addr(rng)
                t = Tpl(256 + ty, [], [(1, 0, 8), (eid, 0, ln)])
                m1 = g.enc_msg([g.enc_set(g.tpl_set_id(False), g.enc_tpl(t, False))])
                body = b"".join(bytes(rng.randrange(256) for _ in range(8 + ln)) for _ in range(2))
                m2 = g.enc_msg([g.enc_set(t.tid, body)])
                out.append("%s %s %s %s %s" % (cmd, hx(addr), hx(m1), hx(addr), hx(m2)))
        return out

    def cases(self, tier, rng, budget):
        gens = {p: Gen(p, go_model(), rng) for p in ("ipfix", "nf9")}
        out = []
        for p in ("ipfix", "nf9"):
            out += self.type_sweep(p, gens[p], rng)
        # inside ONE message: data for X, then X (re)defined by an adversarial template (zero fields, zero-length fields, huge
        # lengths ...), then data for X again - whatever was learnt about X earlier in the message must not survive
        for p in ("ipfix", "nf9"):
            g = gens[p]; cmd = "ipfixh" if p == "ipfix" else "nf9h"
            for _ in range(40 if tier == "quick" else 2000):
                addr = rand_addr(rng); tid = rng.choice([256, 300, 65535])
                t1, o1 = g.rand_tpl(tid=tid, allow_var=False)
                sets = []
                if rng.random() < 0.7:
                    sets.append(g.enc_set(g.tpl_set_id(o1), g.enc_tpl(t1, o1)))
                for _ in range(rng.choice([1, 2, 3])):
                    sets.append(g.enc_set(tid, g.rand_record(t1)[0] if g.min_rec_len(t1) > 0 else bytes(12)))
                    t2, o2 = adversarial_tpl(g, rng, tid)
                    sets.append(g.enc_set(g.tpl_set_id(o2), g.enc_tpl(t2, o2)))
                    sets.append(g.enc_set(tid, bytes(rng.randrange(256) for _ in range(rng.choice([5, 8, 12, 40])))))
                    t1 = t2 if g.min_rec_len(t2) > 0 else t1
                m = g.enc_msg(sets)
                if len(m) < 60000:
                    out.append("%s %s %s" % (cmd, hx(addr), hx(m)))
        # a WELL-FILLED cache (several exporters, several hundred templates, announced by ordinary template messages) and then
        # datagrams made of as many sets as fit: unknown ids, ids of other exporters, reserved ids, empty sets - whatever an
        # error path does per set must not grow with what earlier payloads installed
        for p in ("ipfix", "nf9"):
            g = gens[p]; cmd = "ipfixh" if p == "ipfix" else "nf9h"
            for rep in range(1 if tier == "quick" else 6):
                toks = []
                owners = [rand_addr(rng) for _ in range(3)]
                for k in range(rng.choice([4, 6])):
                    recs = b"".join(g.enc_tpl(Tpl(1000 + 170 * k + j, [], [(rng.choice([1, 2, 8, 12]), 0, rng.choice([4, 8]))]), False) for j in range(170))
                    toks += [hx(owners[k % 3]), hx(g.enc_msg([g.enc_set(g.tpl_set_id(False), recs)]))]
                sender = rng.choice(owners + [rand_addr(rng)])
                for kind in range(3):
                    ids = {0: [rng.randrange(2000, 60000) for _ in range(340)],                 # unknown ids
                           1: [1000 + j for j in range(340)],                                    # ids some exporter announced (maybe not this one)
                           2: [rng.choice([4, 5, 100, 255, 9, 10]) for _ in range(340)]}[kind]   # reserved ids
                    sets = [g.enc_set(i, b"") for i in ids]
                    toks += [hx(sender), hx(g.enc_msg(sets))]
                out.append(cmd + " " + " ".join(toks))
        # ONE shard of the template cache holding more than a thousand templates, all learnt within one second (a burst after a restart):
        # an exporter whose 1100 template ids all hash into the shard of another exporter's template; then that one announces and sends
        for p in ("ipfix", "nf9"):
            g, cmd = gens[p], "ipfixh" if p == "ipfix" else "nf9h"
            x = bytes([10, 9, rng.randrange(1, 255), rng.randrange(1, 255)])
            shard = _fnv1_32(x + struct.pack(">H", 256)) % 32
            crowd = bytes([172, 16, rng.randrange(1, 255), rng.randrange(1, 255)])
            ids = [i for i in range(300, 65000) if _fnv1_32(crowd + struct.pack(">H", i)) % 32 == shard][:1100]
            toks = []
            for k in range(0, len(ids), 160):
                toks += [hx(crowd), hx(g.enc_msg([g.enc_set(g.tpl_set_id(False), b"".join(g.enc_tpl(Tpl(i, [], [(1, 0, 8)]), False) for i in ids[k:k + 160]))]))]
            tx = Tpl(256, [], [(8, 0, 4), (12, 0, 4)])
            toks += [hx(x), hx(g.enc_msg([g.enc_set(g.tpl_set_id(False), g.enc_tpl(tx, False)), g.enc_set(256, g.rand_record(tx)[0])]))]
            toks += [hx(crowd), hx(g.enc_msg([g.enc_set(ids[5], bytes(8))]))]
            out.append(cmd + " " + " ".join(toks))
        # template records with field count 0 (what RFC 7011 8.1 calls a withdrawal; "all templates" is id 2 in set 2, id 3 in set 3;
        # NetFlow v9 has no such thing, the records are the same octets), alone, followed by a real template record in the same set,
        # sent by exporters known by a 4-octet and by a 16-octet address while templates of BOTH kinds of exporter are cached
        for p in ("ipfix", "nf9"):
            g, cmd = gens[p], "ipfixh" if p == "ipfix" else "nf9h"
            for rep in range(6 if tier == "quick" else 60):
                a4 = bytes([rng.choice([10, 192, 198]), rng.randrange(256), rng.randrange(256), rng.randrange(1, 255)])
                a16 = rng.choice([bytes([0x20, 0x01, 0x0d, 0xb8]) + bytes(rng.randrange(256) for _ in range(12)), bytes(10) + b"\xff\xff" + a4])
                tk, ok_ = g.rand_tpl(tid=256, allow_var=False, opts=False, nfields=3)
                toks = []
                for a in (a4, a16):
                    toks += [hx(a), hx(g.enc_msg([g.enc_set(g.tpl_set_id(False), g.enc_tpl(tk, False))])), hx(a), hx(g.enc_msg([g.enc_set(256, g.rand_record(tk)[0])]))]
                who = [a16, a4] if rep % 2 == 0 else [a4, a16]
                for a in who:
                    opts = rng.random() < 0.4
                    sid = g.tpl_set_id(opts)
                    wid = rng.choice([sid, sid, 256, 2, 3, 0, 1, 255])
                    wrec = struct.pack(">HH", wid, 0) + (b"" if not opts or rng.random() < 0.5 else b"\0\0")
                    t2, _ = g.rand_tpl(tid=257, allow_var=False, opts=opts, nfields=rng.choice([2, 4]))
                    follow = rng.choice([b"", g.enc_tpl(t2, opts), g.enc_tpl(t2, opts), bytes(rng.choice([1, 2, 5, 8]))])
                    toks += [hx(a), hx(g.enc_msg([g.enc_set(sid, wrec + follow)]))]
                    toks += [hx(a), hx(g.enc_msg([g.enc_set(257, bytes(rng.randrange(256) for _ in range(24))), g.enc_set(256, g.rand_record(tk)[0])]))]
                for a in (a4, a16):
                    toks += [hx(a), hx(g.enc_msg([g.enc_set(256, g.rand_record(tk)[0])]))]
                out.append(cmd + " " + " ".join(toks))
        # records of ONE octet (the most records a datagram can hold): data for X before X is known, then X announced with a single
        # 1-octet field, then as much data for X as fits - in one message and in two; whatever is done twice shows in the count
        for p in ("ipfix", "nf9"):
            g = gens[p]; cmd = "ipfixh" if p == "ipfix" else "nf9h"
            for n_after in (200, 1300):
                for first_known in (False, True):
                    addr = rand_addr(rng); tid = rng.choice([300, 256])
                    t1 = Tpl(tid, [], [(4, 0, 1)])              # protocolIdentifier, one octet
                    ts = g.enc_set(g.tpl_set_id(False), g.enc_tpl(t1, False))
                    body = lambda k: bytes(rng.randrange(256) for _ in range(k))
                    toks = [hx(addr), hx(g.enc_msg([ts]))] if first_known else []
                    toks += [hx(addr), hx(g.enc_msg([g.enc_set(tid, body(8)), ts, g.enc_set(tid, body(n_after)), g.enc_set(tid, body(8))]))]
                    out.append(cmd + " " + " ".join(toks))
        # sFlow: EVERY combination of a skipped sample's declared length that is negative as a 32-bit signed number, the kind of
        # sample that is skipped (filtered, unsupported, foreign enterprise) and a sample count that would allow endless repetition
        import struct as _sk
        for l in (0xfffffff8, 0xfffffff0, 0xfffffffc, 0x80000000, 0xffffffff, 0x7fffffff, 0xfffffff4):
            for tag, filt in ((3, ""), (77, ""), ((4413 << 12) | 1, ""), ((1 << 12) | 2, "2 "), (1, "1 "), (2, "2 "), (2, "1 2 ")):
                for ns in (0xffffffff, 1000000, 3):
                    p_ = (_sk.pack(">II", 5, 1) + bytes([10, 0, 0, 1]) + _sk.pack(">IIII", 0, 1, 2, ns) + _sk.pack(">II", tag, l) + bytes(16))
                    out.append("sflow %s%s" % (filt, hx(p_)))
        # every truncation offset of a message announcing a plain and an options template (variable-length scope field), and of its data
        for p in ("ipfix", "nf9"):
            g = gens[p]; cmd = "ipfixh" if p == "ipfix" else "nf9h"; addr = rand_addr(rng)
            for _ in range(1 if tier == "quick" else 12):
                t1, o1 = g.rand_tpl(tid=300, opts=True, allow_var=True)
                t2, o2 = g.rand_tpl(tid=301, opts=False, allow_var=True)
                m1 = g.enc_msg([g.enc_set(g.tpl_set_id(o1), g.enc_tpl(t1, o1)), g.enc_set(g.tpl_set_id(o2), g.enc_tpl(t2, o2))])
                m2 = g.enc_msg([g.enc_set(t1.tid, g.rand_record(t1)[0]), g.enc_set(t2.tid, g.rand_record(t2)[0])])
                out += ["%s %s %s" % (cmd, hx(addr), hx(m1[:n])) for n in range(len(m1) + 1)]
                out += ["%s %s %s %s %s" % (cmd, hx(addr), hx(m1), hx(addr), hx(m2[:n])) for n in range(len(m2) + 1)]
        # a sampled header cut (by the sampling agent) at every offset of its Ethernet / IP / transport headers
        import struct as _st
        for _ in range(2 if tier == "quick" else 30):
            dv = sfgen.Distinct(rng, False)
            body, tree, hdr = sfgen.gen_raw_header(rng, dv)
            hp = _st.unpack(">I", body[:4])[0]
            for n in range(min(len(hdr), 90) + 1):
                h = hdr[:n]
                rec = _st.pack(">II", 1, 16 + len(sfgen.xdr_pad(h))) + _st.pack(">IIII", hp, 1500, 0, len(h)) + sfgen.xdr_pad(h)
                fs = _st.pack(">IIIIIIII", 1, 0, 1, 1, 0, 1, 2, 1) + rec
                pkt = _st.pack(">II", 5, 1) + bytes([10, 0, 0, 1]) + _st.pack(">IIII", 0, 1, 2, 1) + _st.pack(">II", 1, len(fs)) + fs
                out.append("sflow %s" % hx(pkt))
        # ... and packets whose network header announces something OTHER than TCP / UDP / ICMP (IPv6 extension headers: hop-by-hop,
        # routing, fragment, ESP, AH, no-next-header, destination options, mobility; IPv4 protocols GRE, ESP, SCTP, 255), over
        # Ethernet, 802.1Q and bare, cut at every offset: the collector drops such a datagram, it must not do anything else
        for nh in (0, 43, 44, 50, 51, 59, 60, 135, 47, 132, 255):
            ext = bytes([6, 0]) + bytes(rng.randrange(256) for _ in range(6)) + _st.pack(">HHIIHHHH", 80, 443, 1, 2, (5 << 12) | 2, 100, 0, 0)
            v6 = _st.pack(">IHBB", 6 << 28, len(ext), nh, 64) + bytes(rng.randrange(256) for _ in range(32)) + ext
            v4 = bytes([0x45, 0]) + _st.pack(">HHHBBH", 20 + len(ext), 1, 0, 64, nh, 0) + bytes(8) + ext
            for hp, h_ in ((1, bytes(12) + b"\x86\xdd" + v6), (1, bytes(12) + b"\x81\x00\x00\x05\x86\xdd" + v6), (12, v6), (1, bytes(12) + b"\x08\x00" + v4), (11, v4)):
                if tier == "quick" and hp != 1 and nh not in (44, 0, 47):
                    continue
                for n in range(len(h_) + 1):
                    h = h_[:n]
                    rec = _st.pack(">II", 1, 16 + len(sfgen.xdr_pad(h))) + _st.pack(">IIII", hp, 1500, 0, len(h)) + sfgen.xdr_pad(h)
                    fs = _st.pack(">IIIIIIII", 1, 0, 1, 1, 0, 1, 2, 1) + rec
                    pkt = _st.pack(">II", 5, 1) + bytes([10, 0, 0, 1]) + _st.pack(">IIII", 0, 1, 2, 1) + _st.pack(">II", 1, len(fs)) + fs
                    out.append("sflow %s" % hx(pkt))
        # ... and CHAINS of IPv6 extension headers with every kind of length octet (0, 1, 254, 255: the extreme ones wrap in 8-bit
        # arithmetic), each announcing another extension header: whoever walks such a chain must get to its end
        for nh in (0, 43, 60):
            for nh2 in (0, 43, 60, 44):
                for el in (0, 1, 254, 255):
                    ext = bytes([nh2, el]) + bytes(rng.choice([0, nh2, 255]) for _ in range(46))
                    v6 = _st.pack(">IHBB", 6 << 28, len(ext), nh, 64) + bytes(rng.randrange(256) for _ in range(32)) + ext
                    for hp, h in ((1, bytes(12) + b"\x86\xdd" + v6), (12, v6)):
                        rec = _st.pack(">II", 1, 16 + len(sfgen.xdr_pad(h))) + _st.pack(">IIII", hp, 1500, 0, len(h)) + sfgen.xdr_pad(h)
                        fs = _st.pack(">IIIIIIII", 1, 0, 1, 1, 0, 1, 2, 1) + rec
                        pkt = _st.pack(">II", 5, 1) + bytes([10, 0, 0, 1]) + _st.pack(">IIII", 0, 1, 2, 1) + _st.pack(">II", 1, len(fs)) + fs
                        out.append("sflow %s" % hx(pkt))
        # every truncation offset (every short-read branch of the straight-line decoders) of a few sFlow datagrams and a v5 packet
        for _ in range(2 if tier == "quick" else 40):
            pkt = sfgen.gen_datagram(rng, kinds=["flow", "counter", "flow"])[0]
            if len(pkt) <= 1200:
                out += ["sflow %s" % hx(pkt[:n]) for n in range(len(pkt) + 1)]
        for _ in range(1 if tier == "quick" else 10):
            _, a, pk = v5mod.PROP.gen_case(rng).split()
            raw = bytes.fromhex(pk[1:])[:24 + 48 * 3]
            out += ["nf5 %s %s" % (a, hx(raw[:n])) for n in range(len(raw) + 1)]
        # histories spread over TWO lives of the collector: templates learnt, saved, loaded by the next life (and by another process), then
        # data and re-announcements: whatever a decoder keeps beside the specifiers of a template is not in the file
        try:
            from props import c11
            p11 = c11.P()
            for p in ("ipfix", "nf9"):
                g = gens[p]
                for _ in range(6 if tier == "quick" else 60):
                    s_, tpls_ = p11.setup(g, rng, p)
                    out.append("cachert %s FULL S %s H %s" % (p, s_, p11.hist(g, rng, p, tpls_, force=True)))
        except Exception:
            pass
        for i in range(budget):
            proto = self.protos[i % len(self.protos)]
            if proto == "nf5":
                out.append(self.v5_case(rng))
            elif proto == "sflow":
                out.append(self.sflow_case(rng))
            elif proto in gens:
                out.append(self.flow_case(proto, gens[proto], rng))
        return out

    def post(self, lines, impl, model):
        return impl, subst_floats(model)

    @staticmethod
    def strip(o):
        # keep "J:-" vs "J:x" (whether something is published) but not the JSON text (C05)
        return SEP.join(re.sub(r" J:x[0-9a-f]*$", " J:x", x) for x in o.split(SEP))

    def judge(self, line, impl, model):
        if line.startswith("cachert "):
            # a history spread over two lives of the collector (templates saved, loaded, then data): it must not crash either
            if "PANIC" in impl or "HANG" in impl or "CRASH" in impl:
                return "PANIC: a collector restarted on its saved template cache crashes (or hangs) on this history: %s" % (impl[:80] + " ... " + impl[-80:])
            return None
        if "PANIC" in impl or impl.startswith("CRASH"):
            return "PANIC: processing this history crashes the collector: %s" % impl[-60:]
        if "HANG" in impl:
            return "HANG: processing a datagram of this history does not terminate (3 s watchdog)"
        if "MARSHAL-ERROR" in impl:
            return "MARSHAL-ERROR: a decoded message could not be encoded"
        if self.strip(impl) != self.strip(model):
            return "model/implementation disagreement: impl %r model %r" % (self.strip(impl)[:300], self.strip(model)[:300])
        return None

    def classify(self, line, impl, model):
        proto = line.split(" ", 1)[0]
        if proto == "cachert":
            return ("two lives: " + line.split(" ")[1], line if impl.startswith("T:") else None)
        if proto == "sflow":
            return ("sflow:%s" % ("published" if model.startswith("{") else model[:8]), line)
        kinds = [o.split(" ")[0] for o in model.split(SEP)]
        n = sum(parse_dgram(o).get("n", 0) for o in model.split(SEP)) if proto != "nf5" else 0
        cls = "%s:%s:%s" % (proto, "+".join(k[:4] for k in kinds), "recs" if n else "norecs")
        return (cls, line)

    def tie_obligations(self):
        return 0

    def rule(self):
        return ("per protocol (round robin over %s): histories that first install adversarial templates (zero fields, zero-length "
                "fields, 65535-length fixed fields, scope > field count, elements missing from the model), then data sets with matching, "
                "random or boundary lengths and reserved/unknown set ids, each datagram further mutated (16/32-bit length fields set to "
                "boundary values, truncation, byte flips, insertion, deletion, duplication); v5: the C08 stream plus the same mutations; sFlow: specification-built datagrams plus the same mutations and directed hostile record lengths (extended router 0..32 and 2^32-1, 802.1Q headers of 12..22 octets, header lengths around 1500 and 2^31, record/sample counts up to 2^32-1). "
                "non-trivial = every distinct history; the distribution histogram lists outcome classes per protocol" % ", ".join(self.protos))

    def trusted_base(self):
        return ["Coq 8.16.1 kernel",
                "hand models coq/Model/{Reader,Flow,Cache,Ipfix,Nf9,Nf5,MarshalFlow,Sflow,Packet}.v tied by this correspondence run (outcome class and decoded content)",
                "Go harness runs each datagram under recover() and a 3 s watchdog",
                "extraction (ExtrOcamlBasic) + ocaml/driver.ml"]

    def assumptions(self):
        return ["Go int is 64-bit", "panics inside goroutines other than the decoding one (producer, mirror) are covered by C14/C16"]


PROP = FlowRobust("C01")
