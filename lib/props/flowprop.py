# Common machinery of the IPFIX / NetFlow v9 property modules: case construction from abstract
# histories, output parsing, float placeholder substitution, known-finding tags.
import re, struct, json
import vf
from props.flowgen import Gen, Oracle, load_model, Tpl
from props.common import hx, rand_addr

SEP = " ## "
_model_cache = {}


def go_model():
    """the information model the generators and the Python oracle work with: the table as it stands in the SOURCE (regenerated into
    Gen/InfoModel.v, proved equal to the registry snapshot, printed by the extracted model) - not the map the running process
    happens to hold, which is one of the things under test (C20 compares the two); the evaluated Go map only when the model is
    not available in this run"""
    if "m" not in _model_cache:
        m = {}
        try:
            m = load_model(vf.run_model(["infomodel builtin"])[0])
        except Exception:
            m = {}
        if len(m) < 100:
            m = load_model(vf.run_impl(["infomodel builtin"], shards=1)[0])
        _model_cache["m"] = m
    return _model_cache["m"]


def parse_dgram(o):
    """one datagram's output -> dict"""
    if not o.startswith("MSG "):
        return {"kind": o.split(" ")[0] if o else "EMPTY"}
    m = re.match(r"MSG nf=(\d+) H:(\S*) N:(\d+) S:(.*) J:(\S+)$", o)
    if not m:
        return {"kind": "UNPARSEABLE"}
    hdr = dict((kv.split("=")[0], int(kv.split("=")[1])) for kv in m.group(2).split(",") if kv)
    recs = m.group(4).split(";") if m.group(4) else []
    return {"kind": "MSG", "nf": int(m.group(1)), "header": hdr, "n": int(m.group(3)), "recs": recs, "json": m.group(5)}


_float_cache = {}


def subst_floats(outputs):
    """replace @F32:bits@ / @F64:bits@ in the (hex-encoded) J: parts of MODEL outputs by Go's own
    strconv.FormatFloat of those bits (the formatter is a trusted oracle, DESIGN.md C05)"""
    pat = re.compile(rb"@F(32|64):(\d+)@")
    need = set()
    decoded = []
    for o in outputs:
        parts = o.split(SEP)
        dparts = []
        for p in parts:
            m = re.search(r" J:x([0-9a-f]*)$", p)
            if m:
                raw = bytes.fromhex(m.group(1))
                for w, b in pat.findall(raw):
                    need.add((int(w), int(b)))
                dparts.append((p[:m.start()], raw))
            else:
                dparts.append((p, None))
        decoded.append(dparts)
    todo = sorted(k for k in need if k not in _float_cache)
    if todo:
        lines = ["floatfmt %d x%s" % (w, b.to_bytes(8, "big").hex()) for (w, b) in todo]
        res = vf.run_impl(lines, shards=1)
        for k, r in zip(todo, res):
            _float_cache[k] = r.encode()
    out = []
    for dparts in decoded:
        ps = []
        for head, raw in dparts:
            if raw is None:
                ps.append(head)
            else:
                raw = pat.sub(lambda m: _float_cache[(int(m.group(1)), int(m.group(2)))], raw)
                ps.append(head + " J:x" + raw.hex())
        out.append(SEP.join(ps))
    return out


def header_of(proto, p):
    if proto == "ipfix":
        if len(p) < 16: return None
        v = struct.unpack(">HHIII", p[:16])
        return dict(zip(["Version", "Length", "ExportTime", "SequenceNo", "DomainID"], v))
    if len(p) < 20: return None
    v = struct.unpack(">HHIIII", p[:20])
    return dict(zip(["Version", "Count", "SysUpTime", "UNIXSecs", "SeqNum", "SrcID"], v))


def go_drop_rule(sets_records):
    """The implementation's 'more than 4 octets left in the set' rule applied to the abstract structure:
    per data set, record i is read only while sum(len of records i..n) + padding > 4."""
    out = []
    for recs, lens, pad in sets_records:
        keep = []
        for i in range(len(recs)):
            if sum(lens[i:]) + pad > 4:
                keep.append(recs[i])
            else:
                break
        out += keep
    return out
