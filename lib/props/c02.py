# C02 — decoding work and memory are bounded by the datagram's size.
# The C01 adversarial stream; termination and record counts compared with the model, and the real
# code's record count / allocation / time per datagram measured against a linear bound.
import re
import vf
from props.c01 import FlowRobust
from props.flowprop import SEP, parse_dgram

K_ALLOC, K0_ALLOC = 256, 32 * 1024      # bytes allocated <= K * octets + K0 (decode + JSON encode) ...
K_FIELD = 192                           # ... + K_FIELD per decoded field value: a record of a template with zero-length fields yields one
                                        # value per field without consuming octets; there are at most as many records as octets, and the
                                        # number of fields per record is a property of the template an EARLIER datagram announced (not of a
                                        # length or count field of this one)


class P(FlowRobust):
    def __init__(self):
        FlowRobust.__init__(self, "C02")
        self.lines = []

    def cases(self, tier, rng, budget):
        self.lines = FlowRobust.cases(self, tier, rng, budget)
        return self.lines

    def judge(self, line, impl, model):
        v = FlowRobust.judge(self, line, impl, model)
        if v:
            return v
        # records <= octets, per datagram (from the implementation's own output)
        toks = line.split()
        if toks[0] in ("ipfixh", "nf9h"):
            for o, p in zip(impl.split(SEP), toks[2::2]):
                d = parse_dgram(o)
                if d["kind"] == "MSG" and d["n"] > (len(p) - 1) // 2:
                    return "a datagram of %d octets produced %d records" % ((len(p) - 1) // 2, d["n"])
        return None

    def extra(self, tier, rng, known):
        # measure the real code on the same histories (single process so that TotalAlloc deltas are attributable)
        ml = []
        for l in self.lines:
            t = l.split(" ", 1)
            proto = {"ipfixh": "ipfix", "nf9h": "nf9", "nf5": "nf5", "sflow": "sflow"}.get(t[0])
            if proto == "sflow":
                ml.append("measure sflow x00 " + t[1].split()[-1])
            elif proto:
                ml.append("measure %s %s" % (proto, t[1]))
        res = vf.run_impl(ml, shards=1)
        viol, worst, n = [], (0, ""), 0
        for l, r in zip(ml, res):
            for part in r.split(SEP):
                m = re.match(r"R:(\d+) A:(\d+) T:(\d+) L:(\d+)(?: F:(\d+))?", part)
                if not m:
                    if part in ("HANG", "PANIC"):
                        viol.append({"cases": [l], "verdict": "%s while measuring" % part})
                    continue
                recs, alloc, ms, L = map(int, m.groups()[:4])
                nf = int(m.group(5) or 0)
                n += 1
                bound = K_ALLOC * L + K0_ALLOC + K_FIELD * nf
                ratio = alloc / bound
                if ratio > worst[0]:
                    worst = (ratio, "%d octets -> %d bytes allocated, %d records, %d ms" % (L, alloc, recs, ms))
                if alloc > bound:
                    viol.append({"cases": [l], "verdict": "a datagram of %d octets (%d records, %d field values) made the decoder allocate %d bytes (bound %d*octets+%d+%d*values)" % (L, recs, nf, alloc, K_ALLOC, K0_ALLOC, K_FIELD)})
                if recs > L:
                    viol.append({"cases": [l], "verdict": "a datagram of %d octets produced %d records" % (L, recs)})
                if ms > 1000:
                    viol.append({"cases": [l], "verdict": "a datagram of %d octets took %d ms" % (L, ms)})
        return {"violations": viol[:1], "coverage": {"measured_datagrams": n, "alloc_bound": "%d*octets+%d+%d*decoded field values" % (K_ALLOC, K0_ALLOC, K_FIELD), "worst_alloc_case": worst[1]}}

    def rule(self):
        return FlowRobust.rule(self) + "; additionally every datagram is run once more under runtime.MemStats and a clock: TotalAlloc delta <= %d*octets+%d+%d*decoded field values, records <= octets, < 1 s" % (K_ALLOC, K0_ALLOC, K_FIELD)


PROP = P()
