from props.c03 import FlowFidelity
PROP = FlowFidelity("C06", "nf9")
