# sFlow v5 datagram generator + oracle, written from the sFlow version 5 specification (sflow.org
# sflow_version_5.txt) and the Ethernet / 802.1Q / IPv4 / IPv6 / TCP / UDP / ICMP header formats.
# The oracle's expectation is built from the ABSTRACT datagram (the values put on the wire), never by
# decoding.  Expected trees use the member names of the Go structs (what encoding/json prints).
import struct, base64
from props.common import go_ip_string

GENERIC = [("Index", 4), ("Type", 4), ("Speed", 8), ("Direction", 4), ("Status", 4), ("InOctets", 8), ("InUnicastPackets", 4),
           ("InMulticastPackets", 4), ("InBroadcastPackets", 4), ("InDiscards", 4), ("InErrors", 4), ("InUnknownProtocols", 4),
           ("OutOctets", 8), ("OutUnicastPackets", 4), ("OutMulticastPackets", 4), ("OutBroadcastPackets", 4), ("OutDiscards", 4),
           ("OutErrors", 4), ("PromiscuousMode", 4)]
ETHERNET = [(n, 4) for n in ["AlignmentErrors", "FCSErrors", "SingleCollisionFrames", "MultipleCollisionFrames", "SQETestErrors",
                             "DeferredTransmissions", "LateCollisions", "ExcessiveCollisions", "InternalMACTransmitErrors",
                             "CarrierSenseErrors", "FrameTooLongs", "InternalMACReceiveErrors", "SymbolErrors"]]
TOKENRING = [(n, 4) for n in ["LineErrors", "BurstErrors", "ACErrors", "AbortTransErrors", "InternalErrors", "LostFrameErrors",
                              "ReceiveCongestions", "FrameCopiedErrors", "TokenErrors", "SoftErrors", "HardErrors", "SignalLoss",
                              "TransmitBeacons", "Recoverys", "LobeWires", "Removes", "Singles", "FreqErrors"]]
VG = [("InHighPriorityFrames", 4), ("InHighPriorityOctets", 8), ("InNormPriorityFrames", 4), ("InNormPriorityOctets", 8),
      ("InIPMErrors", 4), ("InOversizeFrameErrors", 4), ("InDataErrors", 4), ("InNullAddressedFrames", 4),
      ("OutHighPriorityFrames", 4), ("OutHighPriorityOctets", 8), ("TransitionIntoTrainings", 4), ("HCInHighPriorityOctets", 8),
      ("HCInNormPriorityOctets", 8), ("HCOutHighPriorityOctets", 8)]
VLAN = [("ID", 4), ("Octets", 8), ("UnicastPackets", 4), ("MulticastPackets", 4), ("BroadcastPackets", 4), ("Discards", 4)]
PROCESSOR = [("CPU5s", 4), ("CPU1m", 4), ("CPU5m", 4), ("TotalMemory", 8), ("FreeMemory", 8)]
COUNTERS = {1: ("GenInt", GENERIC), 2: ("EthInt", ETHERNET), 3: ("TRInt", TOKENRING), 4: ("VGInt", VG), 5: ("Vlan", VLAN),
            1001: ("Proc", PROCESSOR)}


class Distinct:
    """hands out pairwise distinct values (so that a swapped pair of fields is visible)"""
    def __init__(self, rng, directed):
        self.rng, self.directed, self.k = rng, directed, 0

    def val(self, nbytes):
        if self.directed:
            self.k += 1
            return (self.k * 2654435761 + 12345) % (256 ** nbytes) if nbytes > 1 else (self.k * 37 + 11) % 256
        r = self.rng.random()
        if r < 0.15:
            return self.rng.choice([0, 1, 256 ** nbytes - 1, 256 ** nbytes // 2])
        return self.rng.randrange(256 ** nbytes)


def xdr_pad(b):
    return b + bytes((4 - len(b) % 4) % 4)


def mac_text(b):
    return ":".join("%02x" % x for x in b)


def gen_l4(rng, dv, proto):
    if proto == 6:
        sp, dp, off, flags = dv.val(2), dv.val(2), rng.randrange(16), rng.randrange(512)
        b = struct.pack(">HHIIHHHH", sp, dp, dv.val(4), dv.val(4), (off << 12) | flags, dv.val(2), dv.val(2), dv.val(2))
        # what follows the 20 fixed octets: nothing, payload, or TCP OPTIONS - well-formed ones and hostile ones (a length octet of 0 or
        # 1, a length beyond what is there, kinds that do not exist, no end-of-list), whatever the data offset says
        k = rng.random()
        if k < 0.45:
            tail = bytes(rng.randrange(256) for _ in range(rng.choice([0, 0, 12])))
        else:
            opts = rng.choice([b"\x03\x00\x00\x00", b"\x02\x00", b"\x02\x04\x05\xb4", b"\x01\x01\x08\x0a" + bytes(8), b"\x08\x01\x00\x00", b"\xfe\x00\x01\x01",
                              b"\x02\xff\x00\x00", b"\x01" * 7 + b"\x05", b"\x00\x03\x00", b"\x13\x12" + bytes(3), b"\x04\x02\x03\x00\x02\x00"])
            opts = opts * rng.choice([1, 1, 3])
            tail = opts[:rng.choice([len(opts), len(opts), max(1, len(opts) - 1), 40])]
            if rng.random() < 0.7:
                off = min(15, 5 + (len(tail) + 3) // 4) if rng.random() < 0.7 else rng.choice([6, 8, 15])
                b = b[:12] + struct.pack(">H", (off << 12) | flags) + b[14:]
        return b + tail, {"SrcPort": sp, "DstPort": dp, "DataOffset": off, "Reserved": 0, "Flags": flags}
    if proto == 17:
        sp, dp = dv.val(2), dv.val(2)
        b = struct.pack(">HHHH", sp, dp, dv.val(2), dv.val(2)) + bytes(rng.randrange(256) for _ in range(rng.choice([0, 4, 20])))
        return b, {"SrcPort": sp, "DstPort": dp}
    ty, code = dv.val(1), dv.val(1)
    rest = bytes(rng.randrange(256) for _ in range(rng.choice([1, 4, 4, 8, 28])))
    b = bytes([ty, code]) + struct.pack(">H", dv.val(2)) + rest
    return b, {"Type": ty, "Code": code, "RestHeader": base64.b64encode(rest).decode()}


def gen_l3(rng, dv, v6):
    # (ICMP and ICMPv6 are told apart by the protocol NUMBER alone: 1 under IPv6 and 58 under IPv4 are decoded like the usual pairings)
    proto = rng.choice([6, 6, 17, 17, 58 if v6 else 1, 58 if v6 else 1, 1 if v6 else 58])
    l4, e4 = gen_l4(rng, dv, proto)
    if not v6:
        tos, tlen, ident, ttl, csum = dv.val(1), dv.val(2), dv.val(2), dv.val(1), dv.val(2)
        flags, frag = rng.randrange(8), rng.randrange(8192)
        src, dst = bytes(dv.val(1) for _ in range(4)), bytes(dv.val(1) for _ in range(4))
        # one header in five carries IP options: IHL 6..15 words, the transport header follows the options
        ihl = rng.randrange(6, 16) if rng.random() < 0.2 else 5
        if rng.random() < 0.3:
            # length fields that disagree with what is there: inside the header, inside the options, one off the end, far beyond
            tlen = rng.choice([0, 19, 20, 21, ihl * 4 - 2, ihl * 4 - 1, ihl * 4, ihl * 4 + 1, ihl * 4 + len(l4) - 1, ihl * 4 + len(l4),
                               ihl * 4 + len(l4) + 1, 65535])
        b = bytes([0x40 | ihl, tos]) + struct.pack(">HHHBBH", tlen, ident, (flags << 13) | frag, ttl, proto, csum) + src + dst
        b += bytes(rng.randrange(256) for _ in range(4 * (ihl - 5)))
        e3 = {"Version": 4, "TOS": tos, "TotalLen": tlen, "ID": ident, "Flags": flags, "FragOff": frag, "TTL": ttl, "Protocol": proto,
              "Checksum": csum, "Src": go_ip_string(src), "Dst": go_ip_string(dst)}
    else:
        tc, fl, plen, hop = dv.val(1), rng.randrange(2 ** 20), dv.val(2), dv.val(1)
        src, dst = bytes(dv.val(1) for _ in range(16)), bytes(dv.val(1) for _ in range(16))
        if rng.random() < 0.3:
            plen = rng.choice([0, 1, max(0, len(l4) - 1), len(l4), len(l4) + 1, 39, 40, 41, 65535])
        if rng.random() < 0.3:
            src = bytes(rng.choice([0, 0, x]) for x in src)
        b = struct.pack(">IHBB", (6 << 28) | (tc << 20) | fl, plen, proto, hop) + src + dst
        e3 = {"Version": 6, "TrafficClass": tc, "FlowLabel": fl, "PayloadLen": plen, "NextHeader": proto, "HopLimit": hop,
              "Src": go_ip_string(src), "Dst": go_ip_string(dst)}
    return b + l4, e3, e4


# hardware addresses that agree in all but a few octets (first 4 equal, last 4 equal, middle equal): anything that remembers
# rendered addresses under a key computed from only part of the address confuses them (the process lives across cases)
MAC_FAMILY = [bytes.fromhex(x) for x in ("02aabbcc0001", "02aabbcc0002", "02aabbccff01", "0211bbcc0001", "fe11bbcc0001", "02aa00cc0001",
                                          "001b21a0b0c1", "001b21a0b0c2", "001b21a0c0c1", "ff1b21a0b0c1")]


def rand_mac(rng, dv):
    if rng.random() < 0.3:
        return rng.choice(MAC_FAMILY)
    return bytes(dv.val(1) for _ in range(6))


def gen_raw_header(rng, dv):
    """returns (record body, expected tree).  header_protocol 1 (Ethernet, optional 802.1Q), 11 (IPv4), 12 (IPv6)."""
    hp = rng.choice([1, 1, 1, 11, 12])
    if hp == 1:
        v6 = rng.random() < 0.4
        dst, src = rand_mac(rng, dv), rand_mac(rng, dv)
        et = 0x86DD if v6 else 0x0800
        l3, e3, e4 = gen_l3(rng, dv, v6)
        vlan = 0
        if rng.random() < 0.4:
            vlan = dv.val(2)                                 # the 16-bit tag control word as it is on the wire
            hdr = dst + src + struct.pack(">HHH", 0x8100, vlan, et) + l3
        else:
            hdr = dst + src + struct.pack(">H", et) + l3
        e2 = {"SrcMAC": mac_text(src), "DstMAC": mac_text(dst), "Vlan": vlan, "EtherType": et}
    else:
        l3, e3, e4 = gen_l3(rng, dv, hp == 12)
        hdr = l3
        e2 = {"SrcMAC": "", "DstMAC": "", "Vlan": 0, "EtherType": 0}
    # pad the sampled header with payload octets to an arbitrary length <= 1500 (every XDR pad residue occurs)
    extra = rng.choice([0, 0, 1, 2, 3, 5, 64, 200, max(0, 1500 - len(hdr))])
    hdr = (hdr + bytes(rng.randrange(256) for _ in range(extra)))[:1500]
    body = struct.pack(">IIII", hp, dv.val(4), dv.val(4), len(hdr)) + xdr_pad(hdr)
    return body, {"L2": e2, "L3": e3, "L4": e4}, hdr


def gen_flow_sample(rng, dv):
    seq, src_type, src_idx = dv.val(4), dv.val(1), rng.randrange(2 ** 24)
    rate, pool, drops, inp, outp = dv.val(4), dv.val(4), dv.val(4), dv.val(4), dv.val(4)
    recs, exp = [], {}
    kinds = [rng.choice(["raw", "raw", "switch", "router", "unknown"]) for _ in range(rng.choice([0, 1, 1, 2, 3, 4]))]
    for k in kinds:
        if k == "raw":
            body, tree, hdr = gen_raw_header(rng, dv)
            if "RestHeader" in tree["L4"]:
                # everything sampled after the 4 fixed ICMP octets
                l3len = 40 if tree["L3"]["Version"] == 6 else 4 * (hdr[(0 if tree["L2"]["EtherType"] == 0 else (18 if hdr[12:14] == b"\x81\x00" else 14))] & 15)
                l2len = 0 if tree["L2"]["EtherType"] == 0 else (18 if hdr[12:14] == b"\x81\x00" else 14)
                tree["L4"]["RestHeader"] = base64.b64encode(hdr[l2len + l3len + 4:]).decode()
            recs.append(struct.pack(">II", 1, len(body)) + body); exp["RawHeader"] = tree
        elif k == "switch":
            v = [dv.val(4) for _ in range(4)]
            recs.append(struct.pack(">II", 1001, 16) + struct.pack(">IIII", *v))
            exp["ExtSwitch"] = dict(zip(["SrcVlan", "SrcPriority", "DstVlan", "DstPriority"], v))
        elif k == "router":
            v6 = rng.random() < 0.4
            nh = bytes(dv.val(1) for _ in range(16 if v6 else 4))
            sm, dm = dv.val(4), dv.val(4)
            body = struct.pack(">I", 2 if v6 else 1) + nh + struct.pack(">II", sm, dm)
            recs.append(struct.pack(">II", 1002, len(body)) + body)
            exp["ExtRouter"] = {"NextHop": go_ip_string(nh), "SrcMask": sm, "DstMask": dm}
        else:
            body = bytes(rng.randrange(256) for _ in range(rng.choice([0, 4, 8, 12, 40, 5, 7])))
            fmt = rng.choice([2, 3, 1003, 1004, 2000, (4413 << 12) | 1, (9 << 12) | 1001])
            recs.append(struct.pack(">II", fmt, len(body)) + body)
    body = struct.pack(">IIIIIIII", seq, (src_type << 24) | src_idx, rate, pool, drops, inp, outp, len(recs)) + b"".join(recs)
    tree = {"SequenceNo": seq, "SourceID": src_type, "SamplingRate": rate, "SamplePool": pool, "Drops": drops, "Input": inp,
            "Output": outp, "RecordsNo": len(recs), "Records": exp}
    return body, tree


def gen_counter_sample(rng, dv):
    seq, src_type, src_idx = dv.val(4), dv.val(1), rng.randrange(2 ** 24)
    recs, exp = [], {}
    for _ in range(rng.choice([0, 1, 1, 2, 3, 5])):
        fmt = rng.choice([1, 2, 3, 4, 5, 1001, 1001, 6, 7, 1002, 2000, (4413 << 12) | 1, (4413 << 12) | 2])
        if fmt in COUNTERS:
            key, fields = COUNTERS[fmt]
            vals = [dv.val(w) for _, w in fields]
            body = b"".join(v.to_bytes(w, "big") for v, (_, w) in zip(vals, fields))
            exp[key] = dict(zip([n for n, _ in fields], vals))
        else:
            body = bytes(rng.randrange(256) for _ in range(rng.choice([0, 4, 8, 28, 88, 6])))
        recs.append(struct.pack(">II", fmt, len(body)) + body)
    body = struct.pack(">III", seq, (src_type << 24) | src_idx, len(recs)) + b"".join(recs)
    tree = {"SequenceNo": seq, "SourceIDType": src_type, "SourceIDIdx": src_idx, "RecordsNo": len(recs), "Records": exp}
    return body, tree


def gen_datagram(rng, directed=False, kinds=None, small_header=None):
    """returns (payload, header dict, samples) with samples = list of (type value on the wire, 'flow'|'counter'|'unknown', tree)"""
    dv = Distinct(rng, directed)
    v6 = rng.random() < 0.3
    agent = bytes(dv.val(1) for _ in range(16 if v6 else 4))
    if rng.random() < 0.08:
        agent = bytes(len(agent))          # an agent that has no address configured: 0.0.0.0 / :: is what the datagram says, and what is published
    sub, seq, up = dv.val(4), dv.val(4), dv.val(4)
    if small_header is not None:
        # header words that look like counts and sample tags (1 sample, type 1 / 2, a listed filter entry): anything that reads the
        # datagram at fixed offsets takes them for something else when the agent address has the other length
        sub, seq, up = (rng.choice(list(small_header) + [0, 1, 1, 2]) for _ in range(3))
    if kinds is None:
        kinds = [rng.choice(["flow", "flow", "counter", "counter", "unknown", "unknown-enterprise"]) for _ in range(rng.choice([1, 1, 2, 3, 4, 6]))]
    samples, wire = [], b""
    for k in kinds:
        if k == "flow":
            body, tree = gen_flow_sample(rng, dv); ty = 1
        elif k == "counter":
            body, tree = gen_counter_sample(rng, dv); ty = 2
        elif k in ("flow-opaque", "counter-opaque"):
            # a sample of a standard type whose CONTENT this collector could not decode (a sampled ARP / LLDP / MPLS frame, a header
            # protocol it does not know, records cut short ...): only for use under a filter that lists the type - a listed sample is
            # skipped unread by its declared length, so what is in it can not matter
            ty = 1 if k == "flow-opaque" else 2
            body = rng.choice([bytes(rng.randrange(256) for _ in range(rng.choice([8, 36, 100]))),
                               struct.pack(">IIIIIIII", 1, 2, 400, 7, 0, 3, 4, 1) + struct.pack(">IIIIII", 1, 16 + 28, 1, 64, 4, 28) + bytes(6) + bytes(6) + b"\x08\x06" + bytes(14)])
            tree, k = None, ("flow" if ty == 1 else "counter")
        elif k == "unknown":
            body, tree = bytes(rng.randrange(256) for _ in range(rng.choice([0, 4, 8, 36, 100, 6]))), None
            ty = rng.choice([3, 4, 5, 7, 100, 4095])
        else:
            body, tree = bytes(rng.randrange(256) for _ in range(rng.choice([0, 4, 8, 36]))), None
            ty = (rng.choice([1, 9, 4413, 1048575] + [1 << k for k in range(20)]) << 12) | rng.choice([1, 2, 3])   # incl. every single enterprise bit
        wire += struct.pack(">II", ty, len(body)) + body
        samples.append((ty, k, tree))
    hdr = {"Version": 5, "IPVersion": 2 if v6 else 1, "AgentSubID": sub, "SequenceNo": seq, "SysUpTime": up, "SamplesNo": len(kinds),
           "IPAddress": go_ip_string(agent)}
    p = struct.pack(">II", 5, 2 if v6 else 1) + agent + struct.pack(">IIII", sub, seq, up, len(kinds)) + wire
    return p, hdr, samples


def expected_doc(hdr, samples, filt=()):
    """the document the property demands (None = nothing to publish), with the given type filter"""
    ss = [t for (ty, k, t) in samples if k == "flow" and 1 not in filt]
    cs = [t for (ty, k, t) in samples if k == "counter" and 2 not in filt]
    if not ss and not cs:
        return None
    d = dict(hdr)
    d.update({"Samples": ss, "Counters": cs, "ColTime": 0})
    return d
