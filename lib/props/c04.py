# C04 — data is decoded only with the same exporter's latest template.
# Histories over several exporters with overlapping ids, re-announcements, data before/after the
# announcement (same or different message), plus a collision stream (distinct exporter/id pairs with
# equal FNV-1-32, found by a seeded birthday search).
import struct
import vf
from props.c03 import FlowFidelity
from props.flowgen import Gen, Oracle, Tpl
from props.flowprop import SEP, go_model, parse_dgram, header_of, go_drop_rule
from props.common import hx, rand_addr


def fnv1_32(b):
    h = 2166136261
    for x in b:
        h = ((h * 16777619) & 0xffffffff) ^ x
    return h


def find_collision(rng, alen=4):
    """two distinct (addr, id) with id >= 256 and equal FNV-1-32(addr || be16 id)"""
    seen = {}
    while True:
        a = bytes(rng.randrange(256) for _ in range(alen))
        i = rng.randrange(256, 65536)
        h = fnv1_32(a + struct.pack(">H", i))
        if h in seen and seen[h] != (a, i):
            return seen[h], (a, i)
        seen[h] = (a, i)


def ambiguous_pair(rng):
    """two distinct (addr, id) that collide under a key built by CONCATENATING text or truncated forms of address and id
    (10.0.0.1 + 2561 = 10.0.0.12 + 561; 2001:db8::1 + 2345 = 2001:db8::12 + 345), or that differ only where a shortened key
    would not look (first octet, upper / lower half of an IPv6 address, high / low byte of the id)"""
    fam = rng.randrange(7)
    if fam == 6:      # a 4-byte exporter whose address is a PREFIX (or the tail) of a 16-byte exporter's address, same id
        a = bytes(rng.randrange(1, 255) for _ in range(4))
        i = rng.randrange(256, 65536)
        other = a + bytes(rng.randrange(256) for _ in range(12)) if rng.random() < 0.7 else bytes(rng.randrange(256) for _ in range(12)) + a
        return (a, i), (other, i)
    if fam in (0, 1):
        while True:
            d, x = rng.randrange(1, 26), rng.randrange(0, 10)
            tail = str(rng.randrange(256, 6553))
            i1, i2 = int(str(x) + tail), int(tail)
            if d * 10 + x <= 255 and 256 <= i1 <= 65535 and 256 <= i2 <= 65535:
                break
        if fam == 0:
            pre = bytes(rng.randrange(1, 255) for _ in range(3))
            return (pre + bytes([d]), i1), (pre + bytes([d * 10 + x]), i2)
        pre = bytes.fromhex("20010db8") + bytes(11)
        h1, h2 = int(str(d), 16), int(str(d) + str(x), 16)       # text of the last group: "1" / "12"
        return (pre + bytes([h1]), i1), (pre + bytes([h2]), i2) if h2 <= 255 else ((pre[:-1] + bytes([h2 >> 8, h2 & 255])), i2)
    i = rng.randrange(256, 65536)
    if fam == 2:      # same id, addresses differing in the first octet only
        t = bytes(rng.randrange(256) for _ in range(3))
        return (bytes([10]) + t, i), (bytes([11]) + t, i)
    if fam == 3:      # IPv6 exporters differing in the upper half only / the lower half only
        lo, hi = bytes(rng.randrange(256) for _ in range(8)), bytes.fromhex("20010db8000a0001")
        if rng.random() < 0.5:
            return (hi + lo, i), (bytes.fromhex("20010db8000b0001") + lo, i)
        return (hi + lo, i), (hi + bytes(rng.randrange(256) for _ in range(8)), i)
    a = bytes(rng.randrange(1, 255) for _ in range(4))
    if fam == 4:      # same exporter, ids equal in the low byte / in the high byte
        return (a, (i & 0xff) | 0x100), (a, (i & 0xff) | 0x200)
    return (a, 0x1200 | (i & 0xff)), (a, 0x1200 | ((i + 1) & 0xff))


class P(FlowFidelity):
    def __init__(self):
        FlowFidelity.__init__(self, "C04", "ipfix")
        self.collisions = []
        self.collision_lines = set()

    def budget(self, tier):
        return 1000 if tier == "quick" else 40000

    def data_set(self, g, rng, t):
        nrec = rng.choice([1, 2, 3])
        wires, vals, lens = b"", [], []
        for _ in range(nrec):
            w, v = g.rand_record(t)
            while len(w) <= 4:       # keep clear of the recorded <=4-octet padding finding (C03/C06)
                t2 = t
                w2, v2 = g.rand_record(t2)
                w, v = w + w2, v + v2
                break
            wires += w; vals.append(v); lens.append(len(w))
        return g.enc_set(t.tid, wires), ("data", t.tid, vals, lens, 0)

    def gen_history(self, g, rng, exporters, tids):
        orc = Oracle(self.proto, g.model)
        known = {}           # (addr, tid) -> Tpl as last announced (what the exporter itself thinks)
        kinds = {}           # (addr, tid) -> whether that was an options template
        toks, exp = [], []
        nmsg = rng.choice([3, 4, 6, 8])
        for _ in range(nmsg):
            a = rng.choice(exporters)
            sets, abstract, tsets = [], [], []
            for _ in range(rng.choice([1, 1, 2, 3, 4])):
                tid = rng.choice(tids)
                k = rng.random()
                if k < 0.45 or (a, tid) not in known and k < 0.6:
                    t, o = self.big_tpl(g, rng, tid)      # announcement or re-announcement with a different definition
                    if (a, tid) in known and rng.random() < 0.5:
                        # ... differing from what this exporter announced before in ONE respect only
                        t2, o2 = g.mutate_tpl(known[(a, tid)], kinds.get((a, tid), False))
                        if g.min_rec_len(t2) > 4:
                            t, o = t2, o2
                    known[(a, tid)] = t; kinds[(a, tid)] = o
                    if self.proto == "ipfix" and rng.random() < 0.12:
                        # a template set that holds nothing but a field-less record carrying the SET id (what RFC 7011 8.1 calls "all
                        # templates withdrawal"; this collector has no such notion: the four octets are padding), then the real set
                        sid = g.tpl_set_id(o)
                        sets.append(g.enc_set(sid, struct.pack(">HH", sid, 0)))
                        abstract.append(("raw", sid, b""))
                    if False:
                        pass
                    elif tsets and tsets[-1][0] == len(sets) - 1 and tsets[-1][1] == g.tpl_set_id(o) and rng.random() < 0.6:
                        # SEVERAL template records in one set (the later ones often need no more specifiers than the earlier ones)
                        tsets[-1][2].append(g.enc_tpl(t, o)); abstract[-1][1].append((t, o))
                        sets[-1] = g.enc_set(tsets[-1][1], b"".join(tsets[-1][2]))
                    else:
                        sets.append(g.enc_set(g.tpl_set_id(o), g.enc_tpl(t, o)))
                        abstract.append(("tpl", [(t, o)]))
                        tsets.append((len(sets) - 1, g.tpl_set_id(o), [g.enc_tpl(t, o)]))
                else:
                    t = known.get((a, tid))
                    if t is None:
                        # data for a template THIS exporter never announced (another one may have): must be unknown
                        other = [v for (ea, et), v in known.items() if et == tid]
                        body = g.rand_record(other[0])[0] if other else bytes(rng.randrange(256) for _ in range(12))
                        sets.append(g.enc_set(tid, body))
                        abstract.append(("raw", tid, body))
                    else:
                        s, ab = self.data_set(g, rng, t)
                        sets.append(s); abstract.append(ab)
            p = g.enc_msg(sets)
            toks += [hx(a), hx(p)]
            recs, nf = orc.expected_sets(a, abstract)
            exp.append({"recs": recs, "nf": nf, "header": header_of(self.proto, p), "go_rule": recs})
        line = self.cmd + " " + " ".join(toks)
        self.expect[line] = exp
        return line

    def gen_case(self, g, rng):
        k = rng.random()
        if k < 0.2 and self.collisions:
            (a1, i1), (a2, i2) = rng.choice(self.collisions)
            line = self.gen_history(g, rng, [a1, a2], [i1, i2])
            self.collision_lines.add(line)
            return line
        if k < 0.4:
            (a1, i1), (a2, i2) = ambiguous_pair(rng)
            return self.gen_history(g, rng, [a1, a2] if a1 != a2 else [a1], [i1, i2] if i1 != i2 else [i1])
        n = rng.choice([2, 2, 3, 4])
        exporters = [rand_addr(rng) for _ in range(n)]
        if rng.random() < 0.3:   # the 4-byte and the 16-byte form of related addresses, and near-identical IPv6 exporters
            b = bytes(rng.randrange(256) for _ in range(4))
            exporters += [b, bytes(12) + b, bytes.fromhex("20010db8000a0000") + bytes(4) + b, bytes.fromhex("20010db8000b0000") + bytes(4) + b]
        tids = rng.sample([256, 257, 258, 300, 1000, 65535], rng.choice([1, 2, 2, 3]))
        return self.gen_history(g, rng, exporters, tids)

    def crowded_shard(self, g, rng):
        """ONE shard of the cache holding more than a thousand templates (a busy collector; here: one exporter announcing ~1100
        one-field templates whose keys all hash to the shard of exporter X's template): X announces T, the crowd arrives, X
        redefines T and sends data; a new exporter Y whose key lands in the same shard announces and sends data in one message"""
        orc = Oracle(self.proto, g.model)
        x = bytes([10, 9, rng.randrange(1, 255), rng.randrange(1, 255)])
        tid = 256
        shard = fnv1_32(x + struct.pack(">H", tid)) % 32
        crowd = bytes([172, 16, rng.randrange(1, 255), rng.randrange(1, 255)])
        ids = [i for i in range(300, 65000) if fnv1_32(crowd + struct.pack(">H", i)) % 32 == shard][:1100]
        y = next(a for a in (bytes([192, 0, 2, k]) for k in range(1, 255)) if fnv1_32(a + struct.pack(">H", 300)) % 32 == shard)
        toks, exp = [], []

        def msg(a, sets, abstract):
            p = g.enc_msg(sets)
            toks.extend([hx(a), hx(p)])
            recs, nf = orc.expected_sets(a, abstract)
            exp.append({"recs": recs, "nf": nf, "header": header_of(self.proto, p), "go_rule": recs})
        t1 = Tpl(tid, [], [(8, 0, 4)])
        msg(x, [g.enc_set(g.tpl_set_id(False), g.enc_tpl(t1, False))], [("tpl", [(t1, False)])])
        for k in range(0, len(ids), 160):
            ts = [Tpl(i, [], [(1, 0, 8)]) for i in ids[k:k + 160]]
            msg(crowd, [g.enc_set(g.tpl_set_id(False), b"".join(g.enc_tpl(t, False) for t in ts))], [("tpl", [(t, False) for t in ts])])
        t2 = Tpl(tid, [], [(8, 0, 4), (12, 0, 4)])
        s2, ab2 = self.data_set(g, rng, t2)
        msg(x, [g.enc_set(g.tpl_set_id(False), g.enc_tpl(t2, False)), s2], [("tpl", [(t2, False)]), ab2])
        s3, ab3 = self.data_set(g, rng, t2)
        msg(x, [s3], [ab3])
        t3 = Tpl(300, [], [(7, 0, 2), (11, 0, 2), (4, 0, 1)])
        s4, ab4 = self.data_set(g, rng, t3)
        msg(y, [g.enc_set(g.tpl_set_id(False), g.enc_tpl(t3, False)), s4], [("tpl", [(t3, False)]), ab4])
        line = self.cmd + " " + " ".join(toks)
        self.expect[line] = exp
        return line

    def big_template_set(self, g, rng, n):
        """ONE template set of n records in which one id is defined TWICE (first one way, later another way): the later definition
        is the one in force, however many records the set has and wherever the two stand"""
        orc = Oracle(self.proto, g.model)
        a = rand_addr(rng)
        toks, exp = [], []
        i, j = sorted(rng.sample(range(n), 2))
        ids = list(range(256, 256 + n))
        ids[j] = ids[i]
        tps = []
        for k, tid in enumerate(ids):
            nf = rng.choice([1, 2, 3]) if k != j else 4
            tps.append(Tpl(tid, [], [(rng.choice([1, 2, 8, 12, 7, 11, 4, 10, 14]), 0, None) for _ in range(nf)]))
        for t in tps:
            t.fields = [(e, p_, {1: 8, 2: 8, 8: 4, 12: 4, 7: 2, 11: 2, 4: 1, 10: 4, 14: 4}[e]) for e, p_, _ in t.fields]
        if g.min_rec_len(tps[i]) <= 4:
            tps[i].fields.append((1, 0, 8))

        def msg(sets, abstract):
            p = g.enc_msg(sets)
            toks.extend([hx(a), hx(p)])
            recs, nf = orc.expected_sets(a, abstract)
            exp.append({"recs": recs, "nf": nf, "header": header_of(self.proto, p), "go_rule": recs})
        msg([g.enc_set(g.tpl_set_id(False), b"".join(g.enc_tpl(t, False) for t in tps))], [("tpl", [(t, False) for t in tps])])
        s1, ab1 = self.data_set(g, rng, tps[j])
        others = [t for k, t in enumerate(tps) if k not in (i, j) and g.min_rec_len(t) > 4][:2]
        sets, abstract = [s1], [ab1]
        for t in others:
            s_, ab = self.data_set(g, rng, t)
            sets.append(s_); abstract.append(ab)
        msg(sets, abstract)
        line = self.cmd + " " + " ".join(toks)
        self.expect[line] = exp
        return line

    def cases(self, tier, rng, budget):
        self.collisions = [find_collision(rng, 4) for _ in range(3)] + [find_collision(rng, 16)]
        out = []
        for proto in ("ipfix", "nf9"):
            self.proto = proto
            self.cmd = "ipfixh" if proto == "ipfix" else "nf9h"
            g = Gen(proto, go_model(), rng)
            out.append(self.crowded_shard(g, rng))
            out += [self.big_template_set(g, rng, n) for n in (5, 12, 13, 14, 16, 20, 33, 60) for _ in range(2)]
            out += [self.gen_sandwich(g, rng) if i % 8 == 7 else self.gen_case(g, rng) for i in range(budget // 2)]
        return out

    def extra(self, tier, rng, known):
        """templates fetched from PEER collectors (ipfix/memcache_rpc.go): a peer learns templates of several exporters by decoding
        (plain, options, enterprise-specific, same id under different exporters, longer then shorter), serves them with the real
        RPCServer on localhost, and every request is answered by the peer's own look-up, over one connection used for all
        requests and over a connection per request: the three must agree (an answer is the template THAT exporter announced
        under THAT id, whatever was fetched before), and a key the peer does not hold is not available"""
        import time
        from props.flowgen import Gen, Tpl
        g = Gen("ipfix", go_model(), rng)
        viol, n, notes = [], 0, []
        for rep in range(3 if tier == "quick" else 12):
            ex = [rand_addr(rng) for _ in range(rng.choice([2, 3]))]
            hist, reqs, seq = [], [], []
            for a in ex:
                tids = rng.sample([256, 257, 300, 400], rng.choice([2, 3]))
                for tid in tids:
                    # options template first, plain afterwards, enterprise-specific next to IANA, many fields then few
                    kind = len(seq) % 4
                    if kind == 0:
                        t, o = g.rand_tpl(tid=tid, opts=True, allow_var=False)
                    elif kind == 1:
                        t, o = g.rand_tpl(tid=tid, opts=False, nfields=rng.choice([1, 2]), allow_var=False)
                    elif kind == 2:
                        t, o = Tpl(tid, [], [(1, 9, 4), (2, 9, 4), (3, 9, 1), (4, 9, 8)]), False
                    else:
                        t, o = g.rand_tpl(tid=tid, opts=False, nfields=rng.choice([3, 6]), allow_var=False)
                    hist += [hx(a), hx(g.enc_msg([g.enc_set(g.tpl_set_id(o), g.enc_tpl(t, o))]))]
                    seq.append((a, tid))
            rng.shuffle(seq)
            seq = seq[:2] + [(ex[0], 999)] + seq[2:] + [(rand_addr(rng), seq[0][1])]     # two keys the peer does not hold
            line = "rpcget %s R %s" % (" ".join(hist), " ".join("%s %d" % (hx(a), tid) for a, tid in seq))
            out = None
            for attempt in range(6):
                out = vf.run_impl([line], shards=1)[0]
                if not out.startswith(("RPC-PORT-BUSY", "RPC-SERVER-DOWN", "RPC-DIAL-ERROR")):
                    break
                time.sleep(1.5)
            if out.startswith("RPC-"):
                notes.append("peer fetch case skipped: TCP port 8085 of this host is in use (%s)" % out[:60])
                continue
            n += 1
            parts = dict(x.split(" ", 1) if " " in x else (x, "") for x in out.split(" | "))
            d, sh, fr = (parts.get(k, "").split(";") for k in ("DIRECT", "SHARED", "FRESH"))
            bad = None
            if len(d) != len(seq) or "PANIC" in out:
                bad = "the peer fetch failed: %s" % out[:200]
            else:
                for i, (a, tid) in enumerate(seq):
                    if sh[i] != d[i] or fr[i] != d[i]:
                        bad = ("the template fetched from a peer for exporter %s, id %d is not the one the peer holds for that exporter and id: peer's own "
                               "look-up %s, fetched over a connection used for several requests %s, over a connection of its own %s (request %d of %d)"
                               % (a.hex(), tid, d[i], sh[i], fr[i], i + 1, len(seq)))
                        break
                if bad is None and (d[2] != "NA" or d[-1] != "NA"):
                    bad = "the peer answers a request for a key it does not hold: %s / %s" % (d[2], d[-1])
            if bad:
                viol.append({"cases": [line], "verdict": bad}); break
        return {"violations": viol[:1], "coverage": {"peer_fetch_cases": n}, "notes": notes + ["%d peer-fetch histories over the real RPC server on localhost" % n]}

    def judge(self, line, impl, model):
        v = FlowFidelity.judge(self, line, impl, model)
        if v and line in self.collision_lines and not v.startswith("model/implementation"):
            # the concrete model (hash-keyed, as the code is) agrees with the implementation?
            strip = lambda o: SEP.join(x.rsplit(" J:", 1)[0] for x in o.split(SEP))
            if strip(impl) == strip(model):
                return "KNOWN:hash-collision: two distinct exporter/id pairs with equal FNV-1-32 share one cache entry: " + v[:200]
        return v

    def tags(self, line, impl, model, v):
        return ["hash-collision"] if v.startswith("KNOWN:hash-collision") else FlowFidelity.tags(self, line, impl, model, v)

    def classify(self, line, impl, model):
        toks = line.split()
        nexp = len(set(toks[1::2]))
        got = [parse_dgram(o) for o in model.split(SEP)]
        n = sum(g.get("n", 0) for g in got)
        unk = sum(g.get("nf", 0) for g in got)
        return ("%s exporters=%d%s%s" % (toks[0], min(nexp, 4), " unknown" if unk else "", " collision" if line in self.collision_lines else ""),
                line if n > 0 and nexp > 1 else None)

    def rule(self):
        return ("histories of 3-8 messages from 2-8 exporters (4-byte, v4-mapped, IPv6; incl. the 4-byte/16-byte forms of one address and "
                "IPv6 exporters sharing their low 32 bits) over 1-3 shared template ids: announcements, re-announcements with a different "
                "definition, data before/after the announcement in the same or a later message, data for ids only another exporter "
                "announced; 20% of the histories use exporter/id pairs colliding under FNV-1-32 (seeded birthday search). IPFIX and v9. "
                "non-trivial = distinct history with >= 2 exporters and >= 1 decoded record")

    def trusted_base(self):
        return FlowFidelity.trusted_base(self) + [
            "peer fetch: translator extract/rpc.go (Gen/Rpc.v: IRPC.Get, RPCClient.Get, RPC of ipfix/memcache_rpc.go); net/rpc + encoding/gob "
            "trusted to deliver what the server answered (gob's zero-field rule is stated in Model/PeerFetch.v, not verified); harness "
            "harness/cmd/impl/rpcget.go runs the real RPCServer / RPCClient on localhost:8085; multicast discovery not exercised"]


PROP = P()
