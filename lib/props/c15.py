# C15 — SIGTERM stops the collector cleanly and templates survive the restart.
# The implementation side carries most of the weight here: the BUILT BINARY is started with
# temporary ports, cache files and a raw-socket sink, driven over real UDP, signalled at chosen
# moments, restarted on the same cache files, and checked for: exit status 0, exit latency, no
# panic / fatal error, loadable cache files, and that data for every template acknowledged before
# the signal is decoded immediately after the restart (published bytes identical to before).
import json, os, random, re, shutil, signal, socket, subprocess, tempfile, threading, time, urllib.request
import vf
from props.flowgen import Gen, load_model
from props.common import hx


class Sink:
    def __init__(self):
        self.srv = socket.socket(); self.srv.setsockopt(socket.SOL_SOCKET, socket.SO_REUSEADDR, 1)
        self.srv.bind(("127.0.0.1", 0)); self.srv.listen(16)
        self.port = self.srv.getsockname()[1]
        self.lines, self.lock, self.stop = [], threading.Lock(), False
        threading.Thread(target=self.accept, daemon=True).start()

    def accept(self):
        self.srv.settimeout(0.2)
        while not self.stop:
            try:
                c, _ = self.srv.accept()
            except OSError:
                continue
            threading.Thread(target=self.read, args=(c,), daemon=True).start()

    def read(self, c):
        buf = b""
        c.settimeout(0.2)
        while not self.stop:
            try:
                d = c.recv(65536)
            except socket.timeout:
                continue
            except OSError:
                break
            if not d:
                break
            buf += d
            while b"\n" in buf:
                l, buf = buf.split(b"\n", 1)
                with self.lock:
                    self.lines.append(l)
        c.close()

    def wait_for(self, pred, timeout=3.0):
        t0 = time.time()
        while time.time() - t0 < timeout:
            with self.lock:
                for l in self.lines:
                    if pred(l):
                        return l
            time.sleep(0.01)
        return None

    def close(self):
        self.stop = True
        self.srv.close()


def free_port(tcp=False):
    s = socket.socket(socket.AF_INET, socket.SOCK_STREAM if tcp else socket.SOCK_DGRAM); s.bind(("" if tcp else "127.0.0.1", 0)); p = s.getsockname()[1]; s.close(); return p


class Collector:
    def __init__(self, d, sink_port, stats_format="restful"):
        self.d = d
        self.stats_format = stats_format
        self.ports = {k: free_port(tcp=(k == "stats")) for k in ("ipfix", "nf9", "nf5", "sflow", "stats")}
        # the configuration directory is NOT the working directory, and the cache files are named relatively (they are the working
        # directory's, for the load at start-up and for the dump at shutdown alike)
        self.conf = os.path.join(d, "conf")
        os.makedirs(self.conf, exist_ok=True)
        open(os.path.join(self.conf, "vflow.conf"), "w").write("")
        open(os.path.join(self.conf, "mq.conf"), "w").write("url: 127.0.0.1:%d\nprotocol: tcp\nretry-max: 2\n" % sink_port)
        self.p = None

    def start(self, retries=2):
        """start the binary; when a port it was given has been taken by someone else in the meantime, take new ports and try again"""
        for attempt in range(retries + 1):
            if self.start1():
                return True
            try:
                self.err.seek(0); msg = self.err.read()
            except Exception:
                msg = ""
            if "address already in use" not in msg:
                return False
            self.ports = {k: free_port(tcp=(k == "stats")) for k in self.ports}
        return False

    def start1(self):
        args = [os.path.join(vf.HARNESS, "bin", "vflow"), "-config", os.path.join(self.conf, "vflow.conf"), "-mqueue", "rawSocket", "-mqueue-conf", "mq.conf",
                "-ipfix-port", str(self.ports["ipfix"]), "-netflow9-port", str(self.ports["nf9"]), "-netflow5-port", str(self.ports["nf5"]),
                "-sflow-port", str(self.ports["sflow"]), "-stats-http-port", str(self.ports["stats"]), "-stats-format", self.stats_format,
                "-ipfix-rpc-enabled=false", "-dynamic-workers=false", "-pid-file", os.path.join(self.d, "pid"),
                "-ipfix-tpl-cache-file", "ipfix.cache", "-netflow9-tpl-cache-file", "nf9.cache",
                "-ipfix-workers", "4", "-netflow9-workers", "4", "-netflow5-workers", "2", "-sflow-workers", "2"]
        self.err = open(os.path.join(self.d, "stderr.%d" % int(time.time() * 1000)), "w+")
        self.p = subprocess.Popen(args, stdout=self.err, stderr=self.err, cwd=self.d)
        t0 = time.time()
        while time.time() - t0 < 8:
            try:
                urllib.request.urlopen("http://127.0.0.1:%d/%s" % (self.ports["stats"], "flow" if self.stats_format == "restful" else "metrics"), timeout=0.3).read()
                return True
            except Exception:
                if self.p.poll() is not None:
                    return False
                time.sleep(0.05)
        return False

    def cache_path(self, name):
        """where the collector keeps the cache file of that (relative) name: the working directory, as the option is documented;
        a tree that resolves relative names against the configuration directory is accepted as well - what the property promises
        is shown by the restart, not by the place"""
        for base in (self.d, self.conf):
            if os.path.exists(os.path.join(base, name)):
                return os.path.join(base, name)
        return os.path.join(self.d, name)

    def metrics(self):
        """the Prometheus page: metric name -> value"""
        try:
            txt = urllib.request.urlopen("http://127.0.0.1:%d/metrics" % self.ports["stats"], timeout=1).read().decode()
        except Exception:
            return None
        out = {}
        for l in txt.split("\n"):
            if l.startswith("vflow_") and " " in l:
                k, v = l.rsplit(" ", 1)
                try:
                    out[k] = float(v)
                except ValueError:
                    pass
        return out

    def stats(self):
        try:
            return json.loads(urllib.request.urlopen("http://127.0.0.1:%d/flow" % self.ports["stats"], timeout=1).read())
        except Exception:
            return None

    def stop(self, sig):
        t0 = time.time()
        self.p.send_signal(sig)
        try:
            rc = self.p.wait(timeout=15)
        except subprocess.TimeoutExpired:
            self.p.kill(); rc = "TIMEOUT"
        lat = time.time() - t0
        self.err.seek(0)
        return rc, lat, self.err.read()


class P:
    id = "C15"

    def budget(self, tier):
        return 0

    def cases(self, tier, rng, budget):
        return []

    def judge(self, line, impl, model):
        return None

    def classify(self, line, impl, model):
        return None

    def tie_obligations(self):
        return 0

    def send(self, src_ip, port, payload):
        s = socket.socket(socket.AF_INET, socket.SOCK_DGRAM)
        s.bind((src_ip, 0))
        s.sendto(payload, ("127.0.0.1", port))
        s.close()

    def extra(self, tier, rng, known):
        rc, out = vf.sh(["go", "build", "-o", os.path.join(vf.HARNESS, "bin", "vflow"), "./vflow/"], cwd=vf.REPO, env=vf.GOENV, timeout=900)
        if rc != 0:
            return {"violations": [{"cases": [], "verdict": "vflow binary does not build: " + out[-400:]}], "coverage": {}}
        dump = vf.run_impl(["infomodel builtin"], shards=1)[0]
        model = {k: v for k, v in load_model(dump).items() if k[0] == 0 and not (k == (0, 0))}
        # keep to elements of the built-in model (the binary has no test extensions)
        from props.flowgen import TEST_EXT
        for k in TEST_EXT:
            model.pop(k, None)
        cycles = 5 if tier == "quick" else 25
        try:
            tm = json.load(open(os.path.join(vf.ROOT, ".build", "extract.json")))["timing"]
            grace_s = max(v["grace_ns"] for v in tm.values()) / 1e9
        except Exception:
            grace_s = 1.0
        runs = 1 if tier == "quick" else 3
        viol, log = [], []
        n_cycles = 0
        MODES = ["steady", "trickle", "burst", "late", "idle"]
        for run in range(runs):
            d = tempfile.mkdtemp(prefix="verif-e2e-", dir=os.path.join(vf.ROOT, ".build"))
            sink = Sink()
            try:
                col = Collector(d, sink.port)
                acked = {}     # (proto, src ip, template id) -> (data payload, published line)
                gens = {"ipfix": Gen("ipfix", model, rng), "nf9": Gen("nf9", model, rng)}

                def announce(proto, ip, t, o):
                    """announce template t from ip, send data for it, wait until it is published (= acknowledged)"""
                    g = gens[proto]
                    tmsg = g.enc_msg([g.enc_set(g.tpl_set_id(o), g.enc_tpl(t, o))])
                    dmsg = g.enc_msg([g.enc_set(t.tid, g.rand_record(t)[0])], seq=rng.randrange(2 ** 32))
                    self.send(ip, col.ports[proto], tmsg)
                    time.sleep(0.02)
                    self.send(ip, col.ports[proto], dmsg)
                    key = ('"AgentID":"%s"' % ip).encode()
                    seqkey = (b'"SequenceNo":%d' if proto == "ipfix" else b'"SeqNum":%d') % struct_seq(proto, dmsg)
                    return dmsg, sink.wait_for(lambda l: key in l and seqkey in l, 3.0)

                for cyc in range(cycles):
                    n_cycles += 1
                    if cyc > 0 and cyc % 2 == 1:
                        # time passes: the templates in the saved files were announced long ago (exporters with a sparse refresh and a
                        # collector that had been up for hours or months): the Timestamp of every entry is moved back
                        for f in ("ipfix.cache", "nf9.cache"):
                            pth = col.cache_path(f)
                            try:
                                b = open(pth, "rb").read()
                                k = [0]
                                def back(m, k=k):
                                    k[0] += 1
                                    return b'"Timestamp":%d' % (int(time.time()) - [7200, 400 * 86400, 2000][k[0] % 3])
                                open(pth, "wb").write(re.sub(rb'"Timestamp":\d+', back, b))
                            except OSError:
                                pass
                    if not col.start():
                        _, _, err = col.stop(signal.SIGKILL) if col.p and col.p.poll() is None else (0, 0, open(col.err.name).read())
                        viol.append({"cases": [], "verdict": "collector did not start in cycle %d: %s" % (cyc, err[-400:])}); break
                    with sink.lock:
                        sink.lines.clear()
                    # 1. data for every template acknowledged before the last signal, WITHOUT resending templates
                    for (proto, ip, tid), (data, pub) in acked.items():
                        self.send(ip, col.ports[proto], data)
                    for (proto, ip, tid), (data, pub) in acked.items():
                        if sink.wait_for(lambda l: l == pub, 3.0) is None:
                            # a datagram can be lost on a loaded machine (UDP): once more, with patience, before concluding anything
                            self.send(ip, col.ports[proto], data)
                        if sink.wait_for(lambda l: l == pub, 8.0) is None:
                            viol.append({"cases": [], "verdict": "after restart %d, data for a template acknowledged before the signal (%s exporter %s, template %d) is not decoded: templates were lost" % (cyc, proto, ip, tid),
                                         "datagram": data.hex(), "expected_published": pub.decode("latin1")[:300]}); break
                    if viol:
                        col.stop(signal.SIGKILL); break
                    mode = MODES[(cyc + run) % 5]
                    shrink = (cyc % 3 == 2) and len(acked) > 0
                    if shrink:
                        # in such a life NOTHING new appears, not even in the traffic in flight: known exporters redefine their templates, that is all
                        mode = ["steady", "idle", "late"][(cyc // 3 + run) % 3]
                    new = []
                    if shrink:
                        # 2a. a SHRINKING cache: every known exporter re-announces its template with a single field and nobody new
                        # appears, so the file saved at this stop is shorter than the one it replaces
                        for (proto, ip, tid) in list(acked):
                            from props.flowgen import Tpl
                            t = Tpl(tid, [], [(1, 0, 8)])
                            dmsg, pub = announce(proto, ip, t, False)
                            if pub is None:
                                viol.append({"cases": [], "verdict": "cycle %d: data sent after the re-announced template was never published (%s from %s)" % (cyc, proto, ip)}); break
                            acked[(proto, ip, tid)] = (dmsg, pub)
                            new.append((proto, ip, dmsg, pub))
                    else:
                        # 2b. new exporters announce templates and send data; a template is acknowledged once its data is published
                        for k in range(rng.choice([2, 4])):
                            # (the first life always has an IPFIX template with a variable-length field and a NetFlow v9 OPTIONS template:
                            # whatever the seed, both kinds go through a save and a load)
                            proto = ["ipfix", "nf9"][k % 2] if cyc == 0 else rng.choice(["ipfix", "nf9"])
                            force_opts = True if (cyc == 0 and k == 1) else None
                            g = gens[proto]
                            ip = "127.0.0.%d" % rng.randrange(2, 250)
                            while True:
                                # (several fields: the one-field re-announcements of a later shrink cycle then really make the saved file shorter)
                                # (IPFIX: every other template has variable-length fields: whatever a decoder derives from a template when it
                                # is announced must also be there when the template comes back from the file)
                                t, o = g.rand_tpl(tid=rng.choice([256, 257, 300, 999]), opts=force_opts, allow_var=(proto == "ipfix" and k % 2 == 0), nfields=rng.choice([6, 10, 25]))
                                if g.min_rec_len(t) > 4:
                                    break
                            if proto == "ipfix" and k % 2 == 0 and all(ln != 65535 for _, _, ln in t.specs()):
                                t.fields.append((82, 0, 65535))       # interfaceName, variable length
                            dmsg, pub = announce(proto, ip, t, o)
                            if pub is None:
                                viol.append({"cases": [], "verdict": "cycle %d: data sent after its template was never published (%s from %s)" % (cyc, proto, ip)}); break
                            acked[(proto, ip, t.tid)] = (dmsg, pub)
                            new.append((proto, ip, dmsg, pub))
                    if viol:
                        col.stop(signal.SIGKILL); break
                    # 3. traffic in flight when the signal arrives
                    sig = signal.SIGTERM if (cyc + run) % 2 == 0 else signal.SIGINT
                    if mode == "steady":
                        for j in range(50):
                            proto, ip, dmsg, pub = rng.choice(new)
                            self.send(ip, col.ports[proto], dmsg); time.sleep(0.002)
                    stopper = None
                    if mode == "burst":
                        def burst():
                            for j in range(3000):
                                proto, ip, dmsg, pub = new[j % len(new)]
                                try:
                                    if j % 3 == 1:
                                        # template ANNOUNCEMENTS keep arriving too (from further exporters): cache writers are then at work
                                        # while the cache is being dumped
                                        g_ = gens[proto]
                                        t_, o_ = g_.rand_tpl(tid=2000 + j % 50, allow_var=False, opts=False, nfields=2)
                                        self.send("127.0.%d.%d" % (3 + j % 5, 2 + j % 200), col.ports[proto], g_.enc_msg([g_.enc_set(g_.tpl_set_id(False), g_.enc_tpl(t_, False))]))
                                    else:
                                        self.send(ip, col.ports[proto], dmsg if j % 7 else os.urandom(60))
                                except OSError:
                                    pass
                        stopper = threading.Thread(target=burst, daemon=True); stopper.start()
                        time.sleep(rng.choice([0.0, 0.01, 0.05]))
                    if mode == "trickle":
                        # datagrams keep arriving, a few per 20 ms on all four ports, for as long as the process lives after the signal
                        def trickle(proc=col.p):
                            t0 = time.time()
                            j = 0
                            while proc.poll() is None and time.time() - t0 < 8:
                                proto, ip, dmsg, pub = new[j % len(new)]; j += 1
                                try:
                                    self.send(ip, col.ports[proto], dmsg)
                                    g_ = gens[proto]
                                    t_, o_ = g_.rand_tpl(tid=2000 + j % 50, allow_var=False, opts=False, nfields=2)
                                    for q_ in range(6):
                                        self.send("127.0.%d.%d" % (3 + (j + q_) % 5, 2 + (7 * j + q_) % 200), col.ports[proto], g_.enc_msg([g_.enc_set(g_.tpl_set_id(False), g_.enc_tpl(t_, False))]))
                                    self.send("127.0.0.1", col.ports["nf5"], os.urandom(72))
                                    self.send("127.0.0.1", col.ports["sflow"], os.urandom(72))
                                    self.send("127.0.0.1", col.ports["nf9" if proto == "ipfix" else "ipfix"], os.urandom(40))
                                except OSError:
                                    pass
                                time.sleep(0.02)
                        stopper = threading.Thread(target=trickle, daemon=True); stopper.start()
                        time.sleep(0.05)
                    if mode == "late":
                        # a sparse exporter: silence after the signal for the whole grace period of shutdown(), THEN datagrams
                        # (a receive loop still blocked in a read at that point would send on the closed channel)
                        def late(proc=col.p):
                            time.sleep(grace_s + 0.12)
                            t0 = time.time()
                            j = 0
                            while proc.poll() is None and time.time() - t0 < 8:
                                proto, ip, dmsg, pub = new[j % len(new)]; j += 1
                                try:
                                    self.send(ip, col.ports["ipfix"], dmsg); self.send(ip, col.ports["nf9"], dmsg)
                                    self.send("127.0.0.1", col.ports["nf5"], os.urandom(72)); self.send("127.0.0.1", col.ports["sflow"], os.urandom(72))
                                except OSError:
                                    pass
                                time.sleep(0.03)
                        stopper = threading.Thread(target=late, daemon=True); stopper.start()
                    rc, lat, err = col.stop(sig)
                    if stopper:
                        stopper.join(timeout=10)
                    log.append({"cycle": cyc, "mode": mode + ("+shrink" if shrink else ""), "signal": sig.name, "exit": rc, "latency_s": round(lat, 2), "acked_templates": len(acked)})
                    if rc != 0:
                        viol.append({"cases": [], "verdict": "collector exited with status %s on %s (%s traffic)" % (rc, sig.name, mode), "stderr_tail": err[-800:]}); break
                    if lat > 5.0:
                        viol.append({"cases": [], "verdict": "collector took %.1f s to exit on %s" % (lat, sig.name)}); break
                    if "panic" in err or "fatal error" in err:
                        viol.append({"cases": [], "verdict": "collector panicked while stopping (%s traffic, %s)" % (mode, sig.name), "stderr_tail": err[-1200:]}); break
                    for f in ("ipfix.cache", "nf9.cache"):
                        try:
                            dj = json.load(open(col.cache_path(f)))
                            assert dj["ShardNo"] == 32 and len(dj["Cache"]) == 32
                        except Exception as e:
                            viol.append({"cases": [], "verdict": "cache file %s left by the collector is not complete / loadable: %s" % (f, e)}); break
                    if viol:
                        break
                # 4. a LARGE cache (thorough tier, and whenever an obligation of this property is broken: failing-input search): the
                # dump at shutdown then takes longer than a second; the file must still be complete and every acknowledged template
                # must survive ("whatever traffic is in flight", whatever the cache holds)
                if not viol and acked and (tier != "quick" or getattr(self, "broken", None)) and run == 0:
                    n_cycles += 1
                    ok = col.start()
                    if ok:
                        from props.flowgen import Tpl
                        g = gens["ipfix"]
                        base, _ = g.rand_tpl(tid=256, opts=False, nfields=20, allow_var=False)
                        sock = {}
                        sent = 0

                        def bulk():
                            n_ = 0
                            for e in range(250):
                                ip = "127.%d.%d.%d" % (1 + e // 200, 1 + (e // 14) % 200, 2 + e % 14)
                                s_ = socket.socket(socket.AF_INET, socket.SOCK_DGRAM); s_.bind((ip, 0))
                                for b0 in range(0, 400, 16):
                                    sets = [g.enc_set(2, b"".join(g.enc_tpl(Tpl(1000 + b0 + j, [], base.fields), False) for j in range(16)))]
                                    s_.sendto(g.enc_msg(sets), ("127.0.0.1", col.ports["ipfix"])); n_ += 1
                                    if n_ % 8 == 0:
                                        time.sleep(0.001)
                                s_.close()
                            return n_
                        sent = bulk()
                        # one more ordinary announcement, acknowledged after the bulk
                        t, o = g.rand_tpl(tid=301, allow_var=False, opts=False, nfields=3)
                        dmsg, pub = announce("ipfix", "127.0.0.9", t, o)
                        if pub is not None:
                            acked[("ipfix", "127.0.0.9", 301)] = (dmsg, pub)
                        time.sleep(0.5)
                        rc, lat, err = col.stop(signal.SIGTERM)
                        size = os.path.getsize(col.cache_path("ipfix.cache")) if os.path.exists(col.cache_path("ipfix.cache")) else -1
                        log.append({"cycle": "large-cache", "mode": "bulk %d template datagrams" % sent, "signal": "SIGTERM", "exit": rc, "latency_s": round(lat, 2),
                                    "acked_templates": len(acked), "cache_file_octets": size})
                        if rc != 0 or "panic" in err or "fatal error" in err:
                            viol.append({"cases": [], "verdict": "collector exited with status %s on SIGTERM with a large template cache" % rc, "stderr_tail": err[-800:]})
                        elif lat > 12.0:
                            viol.append({"cases": [], "verdict": "collector took %.1f s to exit on SIGTERM with a large template cache" % lat})
                        else:
                            try:
                                dj = json.load(open(col.cache_path("ipfix.cache")))
                                assert dj["ShardNo"] == 32 and len(dj["Cache"]) == 32
                                ntpl = sum(len(sh["Templates"]) for sh in dj["Cache"])
                                log[-1]["templates_in_file"] = ntpl
                            except Exception as e:
                                viol.append({"cases": [], "verdict": "with a large template cache (%d bulk datagrams of 16 templates; shutdown took %.1f s) the cache file left by the "
                                             "collector is not complete / loadable: %s (file size %d)" % (sent, lat, str(e)[:120], size)})
                        if not viol and col.start():
                            with sink.lock:
                                sink.lines.clear()
                            for (proto, ip, tid), (data, pub) in acked.items():
                                self.send(ip, col.ports[proto], data)
                            for (proto, ip, tid), (data, pub) in acked.items():
                                if sink.wait_for(lambda l: l == pub, 15.0) is None:
                                    viol.append({"cases": [], "verdict": "after the restart that followed a shutdown with a large template cache, data for a template acknowledged before "
                                                 "the signal (%s exporter %s, template %d) is not decoded: templates were lost" % (proto, ip, tid), "datagram": data.hex()}); break
                            col.stop(signal.SIGKILL)
                        # 5. a CRASH POINT inside the dump: the collector is killed hard (SIGKILL: OOM killer, power) while it is writing the
                        # large cache at shutdown, at three different moments; whatever that leaves behind (a cut cache file, any residue
                        # beside it), the NEXT life learns a template, is stopped cleanly and restarted: that template survives
                        for ki, frac in enumerate((0.3, 0.6, 0.9)):
                            if viol or not col.start():
                                break
                            bulk()
                            time.sleep(0.4)
                            col.p.send_signal(signal.SIGTERM)
                            time.sleep(1.0 + frac * max(0.3, lat - 1.0))
                            alive = col.p.poll() is None
                            col.p.kill(); col.p.wait()
                            left = sorted(os.listdir(d))
                            if not col.start():
                                viol.append({"cases": [], "verdict": "after a hard kill %.1f s into a shutdown with a large cache the collector does not start again" % (1.0 + frac * max(0.3, lat - 1.0))}); break
                            with sink.lock:
                                sink.lines.clear()
                            t, o = g.rand_tpl(tid=310 + ki, allow_var=False, opts=False, nfields=3)
                            ipk = "127.0.0.%d" % (20 + ki)
                            # (the collector may still be reading a cache file of a hundred megabytes: announce until it answers)
                            for _ in range(6):
                                dmsg, pub = announce("ipfix", ipk, t, o)
                                if pub is not None:
                                    break
                            rc, lat2, err = col.stop(signal.SIGTERM)
                            log.append({"cycle": "kill-during-dump", "killed_after_s": round(1.0 + frac * max(0.3, lat - 1.0), 2), "was_still_running": alive,
                                        "files_left": [f for f in left if not f.startswith("stderr")][:8], "next_life_acknowledged": pub is not None, "next_clean_stop_exit": rc, "latency_s": round(lat2, 2)})
                            if pub is None:
                                continue        # not acknowledged: nothing is promised for it
                            if rc != 0:
                                viol.append({"cases": [], "verdict": "the clean stop after a hard kill during a dump exits with status %s" % rc, "stderr_tail": err[-600:]}); break
                            if not col.start():
                                viol.append({"cases": [], "verdict": "the collector does not start after the clean stop that followed a hard kill during a dump"}); break
                            with sink.lock:
                                sink.lines.clear()
                            self.send(ipk, col.ports["ipfix"], dmsg)
                            if sink.wait_for(lambda l: l == pub, 6.0) is None:
                                self.send(ipk, col.ports["ipfix"], dmsg)
                                if sink.wait_for(lambda l: l == pub, 10.0) is None:
                                    viol.append({"cases": [], "verdict": "the collector was killed hard %.1f s into a shutdown with a large cache (left in the cache directory: %s); the NEXT life learnt "
                                                 "template %d of exporter %s, was stopped with SIGTERM (exit 0) and restarted: data for that template, acknowledged before the signal, is not decoded: "
                                                 "templates were lost" % (1.0 + frac * max(0.3, lat - 1.0), [f for f in left if not f.startswith("stderr")][:6], t.tid, ipk), "datagram": dmsg.hex()})
                            col.stop(signal.SIGKILL)
            finally:
                sink.close()
                if col.p and col.p.poll() is None:
                    col.p.kill()
                shutil.rmtree(d, ignore_errors=True)
            if viol:
                break
        if not viol and getattr(self, "broken", None):
            # failing-input search: the dump under concurrent announcements, on the real caches (the stress harness of C10);
            # a dump that never returns is a shutdown that never ends
            rc, out = vf.sh(["go", "build"] + vf.harness_modfile() + ["-race", "-tags", "verif", "-o", "bin/race", "./cmd/race"], cwd=vf.HARNESS, env=vf.GOENV, timeout=900)
            if rc == 0:
                try:
                    pr = subprocess.run([os.path.join(vf.HARNESS, "bin", "race"), "-d", "5s", "-w", "8"], env=dict(vf.GOENV, GORACE="halt_on_error=1 exitcode=66"),
                                        stdout=subprocess.PIPE, stderr=subprocess.PIPE, text=True, timeout=60)
                    if pr.returncode != 0:
                        viol.append({"cases": [], "verdict": "the template cache is not sound while it is dumped under concurrent announcements (the dump shutdown() relies on): " + (pr.stdout[-200:] + pr.stderr[-400:]).strip()})
                except subprocess.TimeoutExpired:
                    viol.append({"cases": [], "verdict": "Dump of the template cache never returns while templates are being announced (5 s of concurrent decode / Dump, then 55 s of waiting): "
                                 "shutdown() calls Dump after the grace sleep, so SIGTERM would not stop the collector and the cache file would not be written",
                                 "replay_cmd": "cd harness && go build -race -tags verif -o bin/race ./cmd/race && timeout 60 ./bin/race -d 5s -w 8"})
        return {"violations": viol[:1], "coverage": {"cycles": log, "evaluations": max(1, n_cycles), "distinct_nontrivial": max(2, n_cycles),
                                                      "samples": log[:3] or ["no cycle completed"]}}

    def rule(self):
        return ("stop/start cycles of the built binary on the same cache files (quick 5, thorough 3x25): in every cycle new exporters "
                "(127.0.0.x) announce IPFIX/v9 templates and send data until it is published (= acknowledged); every third cycle instead all "
                "known exporters re-announce a one-field template (the saved file shrinks); SIGTERM/SIGINT alternate, arriving during steady "
                "traffic, while datagrams keep trickling in on all four ports until the process is gone, after a silence as long as shutdown()'s sleep ('late'), 0-50 ms into a 3000-datagram burst "
                "(incl. garbage), or while idle; after the restart, data for every template acknowledged in ANY earlier cycle is sent without "
                "templates and must be published byte-identically")

    def trusted_base(self):
        return ["Coq 8.16.1 kernel (ordering / survival lemmas in Properties/C15.v over Model/Shutdown.v, with C10 and C11)",
                "the end-to-end runner lib/props/c15.py (process control, UDP senders bound to 127.0.0.x, TCP sink)",
                "OS signal delivery, timers, sockets, process exit status"]

    def assumptions(self):
        return ["partial: signal delivery, timers, exit status and the close-vs-in-flight-send window are runtime behaviour that the untimed model can state (as a hazard) but not exhibit",
                "'acknowledged' = data using the template was published before the signal"]


def struct_seq(proto, msg):
    import struct
    return struct.unpack(">I", msg[8:12])[0] if proto == "ipfix" else struct.unpack(">I", msg[12:16])[0]


PROP = P()
