# Generic check protocol (DESIGN.md section 6):
#   translator -> full Coq build -> re-check Properties/<id>.v -> extract model -> build Go harness
#   -> corpus + seeded correspondence (model vs real code) + property oracle -> verdict + evidence.
import argparse, importlib, json, os, random, sys, time, glob
import vf


def load_prop(pid):
    return importlib.import_module("props." + pid.lower()).PROP


def known_match(pid, desc_tags, known):
    for k in known.get("findings", []):
        if k["property"] == pid and k["tag"] in desc_tags:
            return k
    return None


def main(argv):
    """a check never dies silently: when the machinery itself fails on the tree it is given (an oracle table that can no longer
    be derived from the regenerated source, a harness that stops answering ...) that is reported as a VIOLATION without failing
    input, with the traceback in the replay file"""
    try:
        return main1(argv)
    except SystemExit:
        raise
    except BaseException as e:
        import traceback
        tb = traceback.format_exc()
        pid = next((x for x in argv if not x.startswith("-")), "C00")
        try:
            path = vf.write_replay(pid, {"property": pid, "cases": [], "broken_obligations": ["the check could not be carried out on this tree: %s" % repr(e)[:300]],
                                         "traceback": tb[-3000:], "note": "no verdict could be formed; the property is not shown to hold on this tree"})
        except Exception:
            path = "replays/unwritable"
        sys.stderr.write(tb)
        print("VIOLATION property=%s replay=%s no-failing-input-found" % (pid, path))
        return 1


def main1(argv):
    ap = argparse.ArgumentParser()
    ap.add_argument("pid")
    ap.add_argument("--tier", default=os.environ.get("VERIF_TIER", "quick"))
    ap.add_argument("--replay")
    a = ap.parse_args(argv)
    pid, tier = a.pid, a.tier
    seed = int(os.environ.get("VERIF_SEED", "1"))
    t0 = time.time()
    os.chdir(vf.ROOT)
    prop = load_prop(pid)
    notes = []
    broken = []          # proof / tie obligations that no longer check
    with vf.Lock():
        bad = vf.gate()
        if bad:
            broken.append("gate: forbidden declarations: " + "; ".join(bad[:5]))
        ok, out = vf.run_translator()
        if not ok:
            notes.append("translator failed: " + out[-400:])
            broken.append("translator")
        ok_all, mk = vf.build_coq()
        # is the executable model still what the theorems are about?  Not when the translator could not read a table it is built
        # from, when a Gen / Base / Model / tie file no longer compiles, or when extraction fails: the model then is no oracle
        model_untrusted = []
        try:
            tp = json.load(open(os.path.join(vf.ROOT, ".build", "extract.json"))).get("problems") or []
        except Exception:
            tp = ["translator manifest unreadable"]
        if tp:
            model_untrusted.append("translator could not read: " + "; ".join(tp[:4]))
        import re as _re0
        # (any file of the development other than the per-property statement files: a proof ABOUT the model that no longer goes
        # through means the model is no longer known to satisfy what the oracles take from it)
        failed_vo = _re0.findall(r"\*\*\* \[[^\]]*?:\s*((?:Gen|Base|Model|Spec|Proofs|Pinned)/\w+)\.vo\]", mk or "")
        if failed_vo:
            model_untrusted.append("does not compile: " + ", ".join(sorted(set(failed_vo))[:6]))
        ok_p, theorems, assumptions, pout = vf.check_property_file(pid)
        if not ok_p:
            broken.append("Properties/%s.v no longer checks: %s" % (pid, pout.strip()[-600:]))
        elif tier == "thorough" and not a.replay:
            okc, txt = vf.coqchk(pid)
            notes.append(txt)
            assumptions = list(assumptions) + [txt]
            if not okc:
                broken.append("coqchk: " + txt)
        ok, out = vf.build_model()
        if not ok:
            print("FATAL: model does not build:\n" + out[-2000:], file=sys.stderr)
            broken.append("extracted model does not build")
            model_untrusted.append("extraction failed")
        ok_i, out = vf.build_impl()
        impl_built = ok_i
        if not ok_i:
            # /repo no longer compiles with the harness: not a property verdict, report as infrastructure failure
            print("FATAL: Go harness does not build against /repo:\n" + out[-3000:], file=sys.stderr)
            return 2
        extra = prop.prepare(tier) if hasattr(prop, "prepare") else None

    if a.replay:
        rp = json.load(open(a.replay))
        lines = rp.get("cases", [])
        impl = prop.run_impl(lines) if hasattr(prop, "run_impl") else vf.run_impl(lines, shards=1)
        model = vf.run_model(lines)
        if hasattr(prop, "post"):
            impl, model = prop.post(lines, impl, model)
        bad = 0
        for l, i, m in zip(lines, impl, model):
            v = prop.judge(l, i, m)
            print("case :", l[:300]); print("impl :", i[:600]); print("model:", m[:600]); print("verdict:", v or "agree")
            bad += 1 if v else 0
        if bad:
            print("VIOLATION property=%s replay=%s" % (pid, a.replay))
            return 1
        return 0

    rng = random.Random(seed * 1000003 + sum(map(ord, pid)))
    prop.broken = list(broken)      # failing-input search: a property module may add its expensive directed scenarios
    budget = prop.budget(tier)
    if broken:
        budget *= 10      # failing-input search: 10x the random budget
    corpus = []
    for f in sorted(glob.glob(os.path.join(vf.ROOT, "corpus", pid, "*.case"))):
        corpus += [l.rstrip("\n") for l in open(f) if l.strip() and not l.startswith("#")]
    gen = prop.cases(tier, rng, budget)
    lines = corpus + gen
    impl = prop.run_impl(lines) if hasattr(prop, "run_impl") else vf.run_impl(lines)
    model = vf.run_model(lines)
    if hasattr(prop, "post"):
        impl, model = prop.post(lines, impl, model)
    known = vf.load_known()
    violations = []      # (line, impl, model, verdict)
    known_hits = {}
    nontrivial = set()
    hist = {}
    for l, i, m in zip(lines, impl, model):
        key = prop.classify(l, i, m)
        if key is not None:
            hist[key[0]] = hist.get(key[0], 0) + 1
            if key[1]:
                nontrivial.add(key[1])
        v = prop.judge(l, i, m)
        if v:
            tags = prop.tags(l, i, m, v) if hasattr(prop, "tags") else []
            k = known_match(pid, tags, known)
            if k:
                known_hits.setdefault(k["tag"], (k, l, i, m))
            else:
                violations.append((l, i, m, v))
    extra_viol = []
    extra_cov = {}
    if hasattr(prop, "extra"):
        # property-specific additional engines (race detector, end-to-end binary, exhaustive sweeps ...)
        ex = prop.extra(tier, rng, known)
        extra_viol = [x for x in ex.get("violations", []) if not x.get("no_failing_input")]
        # an engine may report that its tie to the source is broken without having a failing input
        broken += [x.get("verdict", "tie broken") for x in ex.get("violations", []) if x.get("no_failing_input")]
        extra_cov = ex.get("coverage", {})
        for k in ex.get("known", []):
            known_hits.setdefault(k["tag"], (k, k.get("what", ""), "", ""))
        notes += ex.get("notes", [])

    for tag, (k, l, i, m) in sorted(known_hits.items()):
        print("KNOWN-FINDING: property=%s %s" % (pid, k["what"]))

    if os.environ.get("VERIF_DEBUG") and violations:
        import collections, re as _re
        cnt = collections.Counter(_re.sub(r"\d+", "N", v[3])[:110] for v in violations)
        for k, n in cnt.most_common(12):
            vf.log("  %5d  %s" % (n, k))
    rc = 0
    replay_path = None
    # a disagreement between the model and the implementation is a broken correspondence, not yet a failing input: the
    # property oracle of the check (RFC oracle, relational check, crash, specification-built expectation ...) decides that
    is_corr = lambda v: "model/implementation disagreement" in v[3][:400]
    if model_untrusted and not a.replay:
        # the model is no oracle in this run: a verdict that disappears when the model is made to agree with the implementation
        # rested on the model alone and is a broken correspondence, not a failing input; verdicts of the model-independent
        # oracles (documented formats, relational checks on the implementation, crashes) stand
        notes.append("executable model not trusted in this run (%s): model-dependent verdicts count as broken correspondence" % "; ".join(model_untrusted))
        demoted = []
        for (l, i, m, v) in violations:
            try:
                v2 = prop.judge(l, i, i)
            except Exception:
                v2 = v
            demoted.append((l, i, m, v if v2 else "model/implementation disagreement (model not trusted in this run: %s): %s" % (model_untrusted[0][:120], v)))
        violations = demoted
    prop_viol = [v for v in violations if not is_corr(v)]
    corr_viol = [v for v in violations if is_corr(v)]
    if prop_viol or extra_viol:
        rc = 1
        if prop_viol:
            l, i, m, v = min(prop_viol, key=lambda x: len(x[0]))
            if hasattr(prop, "shrink"):
                l, i, m, v = prop.shrink(l, i, m, v, vf)
            payload = {"property": pid, "seed": seed, "tier": tier, "cases": [l], "impl": i, "model": m, "verdict": v,
                       "broken_obligations": broken,
                       "replay_cmd": "./check %s --replay <this file>" % pid, "total_violations": len(prop_viol)}
        else:
            payload = dict(extra_viol[0], property=pid, seed=seed, tier=tier, broken_obligations=broken)
        replay_path = vf.write_replay(pid, payload)
        print("VIOLATION property=%s replay=%s" % (pid, replay_path))
    elif broken or corr_viol:
        rc = 1
        payload = {"property": pid, "seed": seed, "tier": tier, "cases": [], "broken_obligations": broken,
                   "note": "a proof / tie obligation or the model-implementation correspondence no longer checks; the failing-input search "
                           "(corpus + %d generated cases%s) found no input on which the implementation violates the property oracle" % (len(gen), ", 10x budget" if broken else "")}
        if corr_viol:
            l, i, m, v = min(corr_viol, key=lambda x: len(x[0]))
            payload.update({"broken_correspondence": "the extracted Coq model (Model/Driver.v, proved to satisfy the property) and the implementation "
                                                     "disagree on %d of %d cases; smallest one in `cases`" % (len(corr_viol), len(lines)),
                            "cases": [l], "impl": i, "model": m, "verdict": v, "replay_cmd": "./check %s --replay <this file>" % pid})
        replay_path = vf.write_replay(pid, payload)
        print("VIOLATION property=%s replay=%s no-failing-input-found" % (pid, replay_path))

    n_ob = len(theorems) + prop.tie_obligations()
    samples = []
    for l, i, m in list(zip(lines, impl, model))[:: max(1, len(lines) // 3)][:3]:
        samples.append({"case": l[:400], "impl": i[:400], "model": m[:400]})
    cov = {
        "obligations": n_ob,
        "discharged": n_ob if not broken else max(0, n_ob - len(broken)),
        "checker_cmd": "make -C coq (coqc 8.16.1 full .vo build) ; coqc -Q coq VF coq/Properties/%s.v" % pid,
        "trusted_base": prop.trusted_base(),
        "theorems": theorems,
        "print_assumptions": assumptions,
        "evaluations": len(lines),
        "distinct_nontrivial": len(nontrivial),
        "rule": prop.rule(),
        "samples": samples,
        "distribution": hist,
        "corpus_cases": len(corpus),
        "known_findings_hit": sorted(known_hits.keys()),
        "broken_obligations": broken,
        "notes": notes,
    }
    cov.update(extra_cov)
    vf.write_evidence(pid, tier, seed, "proof", cov, prop.assumptions(), time.time() - t0,
                      len(violations) + len(extra_viol) + (1 if broken and not violations else 0))
    vf.log("%s %s: %d cases, %d nontrivial, %d violations, %d known, broken=%d, %.1fs" %
           (pid, tier, len(lines), len(nontrivial), len(violations) + len(extra_viol), len(known_hits), len(broken), time.time() - t0))
    return rc
