#!/bin/sh
# Build the framework from files on disk only (offline): translator, Coq development (full .vo),
# extracted model + driver, Go harness.  Then the forbidden-declaration gate.
set -e
cd "$(dirname "$0")"
export GOFLAGS=-mod=mod GOPROXY=off GOSUMDB=off GOTOOLCHAIN=local
python3 - <<'PY'
import sys, os
sys.path.insert(0, "lib")
import vf
with vf.Lock():
    bad = vf.gate()
    if bad:
        print("gate failed:", bad); sys.exit(1)
    ok, out = vf.run_translator()
    if not ok: print(out); sys.exit(1)
    ok, out = vf.build_coq()
    if not ok: print(out[-4000:]); sys.exit(1)
    ok, out = vf.build_model()
    if not ok: print(out[-4000:]); sys.exit(1)
    ok, out = vf.build_impl()
    if not ok: print(out[-4000:]); sys.exit(1)
print("setup ok")
PY
