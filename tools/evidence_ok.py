#!/usr/bin/env python3
"""exit 1 unless every evidence/*.json is the record of a clean run (no violations, all obligations discharged)"""
import json, glob, os, sys
bad = 0
root = os.path.dirname(os.path.dirname(os.path.abspath(__file__)))
claimed = [c["property_id"] for c in json.load(open(os.path.join(root, "MANIFEST.json")))["checks"]]
for pid in claimed:
    f = os.path.join(root, "evidence", pid + ".json")
    if not os.path.exists(f):
        print("MISSING", pid); bad += 1; continue
    e = json.load(open(f)); c = e["coverage"]
    if c["obligations"] != c["discharged"] or e["violations"] or c.get("broken_obligations"):
        print("NOT CLEAN", pid, c["obligations"], c["discharged"], e["violations"]); bad += 1
print("evidence ok" if not bad else "%d evidence file(s) not from a clean run" % bad)
sys.exit(1 if bad else 0)
