#!/usr/bin/env python3
"""tools/patchrun.py <repo dir> <out.json> <patch>...  — for background runs on SNAPSHOTS (vp run --with-repo):
applies each patch to <repo dir> (a scratch copy of the repository, never /repo), runs every quick check with
VERIF_REPO=<repo dir>, records exit status and VIOLATION lines, and restores the copy."""
import json, os, subprocess, sys, time
repo, outf, patches = sys.argv[1], os.path.abspath(sys.argv[2]), [os.path.abspath(x) for x in sys.argv[3:]]
assert os.path.realpath(repo) != "/repo"
root = os.path.dirname(os.path.dirname(os.path.abspath(__file__)))
env = dict(os.environ, VERIF_REPO=repo)
res = {}
ids = ["C%02d" % i for i in range(1, 21)]
only = os.environ.get("PATCHRUN_CHECKS")
for p in patches:
    name = os.path.basename(os.path.dirname(p)) + "/" + os.path.basename(p) if os.path.basename(p).startswith("patch") else os.path.basename(p)
    subprocess.run("git checkout -q -- . && git clean -fdq", shell=True, cwd=repo)
    a = subprocess.run(["git", "apply", p], cwd=repo, capture_output=True, text=True)
    if a.returncode != 0:
        res[name] = {"apply": a.stderr[-300:]}; continue
    r = {}
    for c in (only.split(",") if only else ids):
        t = time.time()
        q = subprocess.run(["./check", c], cwd=root, env=env, capture_output=True, text=True)
        v = [l for l in (q.stdout + q.stderr).split("\n") if l.startswith("VIOLATION")]
        r[c] = {"exit": q.returncode, "violation": v[0] if v else "", "wall_s": round(time.time() - t, 1)}
        print(name, c, q.returncode, v[:1], flush=True)
    res[name] = r
    json.dump(res, open(outf, "w"), indent=1)
subprocess.run("git checkout -q -- . && git clean -fdq", shell=True, cwd=repo)
json.dump(res, open(outf, "w"), indent=1)
