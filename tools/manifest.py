#!/usr/bin/env python3
# Regenerates MANIFEST.json from the table below (one entry per claimed property).
import json, os
ROOT = os.path.dirname(os.path.dirname(os.path.abspath(__file__)))
CLAIMS = {
 "C19": dict(
   text="Proof (Coq): per-operation specification of all eight reader operations against the ORIGINAL buffer for every position and every length argument n : Z, the accounting invariant count+remaining=len and data=unread suffix by induction over every finite operation sequence, peeks/failed operations leave the reader unchanged, no operation panics. The hand-written model is tied to reader/reader.go by differential execution of operation sequences (extracted model vs real Go reader, buffers placed in a larger backing array) plus an independent Python oracle.",
   note="Trusted: Coq kernel; hand transcription of reader.go validated by the correspondence run (not generated); extraction (ExtrOcamlBasic) and ocaml/driver.ml; Go harness. Print Assumptions: closed under the global context for all six theorems.",
   technique="Coq invariant proof by induction over operation sequences + differential correspondence (extracted model vs Go)"),
 "C20": dict(
   text="Proof (Coq, finite and exhaustive): both tables are REGENERATED from ipfix/rfc5102_model.go and scripts/ipfix.elements on every run by the go/ast translator and the kernel decides by vm_compute reflection, for all 402 entries, that the two load paths yield the identical run-time map (ids, names, types), every entry is keyed by its own element id, every type name is recognised, keys are unique, and the tables equal the frozen registry snapshot. The translator and the model of LoadExtElements are validated each run against the evaluated Go InfoModel on both load paths.",
   note="Trusted: Coq kernel incl. vm_compute; translator extract/infomodel.go (validated each run against the evaluated Go objects); hand model load_ext of LoadExtElements (validated each run). Closed under the global context.",
   technique="Coq reflection (vm_compute) over tables regenerated from source by a go/ast translator"),
 "C08": dict(
   text="Proof (Coq): for every 24-octet header announcing 1..30 flows and that many 48-octet records with ANY field values and ANY trailing octets, decode(encode h flows ++ trailing) returns the header fields and exactly those flows in wire order, every field its big-endian value (round trip against an encoder written from Cisco's documented format); any other version, count outside 1..30 or too few octets yields no flows; no datagram panics/hangs and flows <= 30 with 48 received octets each. The field sequences and JSON piece sequences are REGENERATED from netflow/v5/*.go on every run and Proofs/Tie.v re-proves them equal to the tables the proofs use; the hand-modelled control flow is tied by differential execution (Go Decode+JSONMarshal vs extracted model) plus an independent Python oracle that also parses the published JSON (dotted addresses, exact numbers).",
   note="Trusted: Coq kernel; translator for layouts/JSON pieces (tie re-proved each run); hand model of validate/decodeFlows/publish decision (correspondence); Spec/Nf5Wire.v; net.IP.String model (sampled). JSON well-formedness of the v5 output is proved under C05. Closed under the global context.",
   technique="Coq round-trip proof (decode o encode) over regenerated layouts + differential correspondence"),
 "C01": dict(
   text="Proof (Coq): for IPFIX and NetFlow v9, for EVERY history of (exporter address, payload) datagrams, every information model and every well-formed cache (hence every reachable cache; the initial cache is proved well-formed), the decode of every datagram returns Ok in the model's outcome monad, where Panic is what the model's checked primitives (Interpret's b[0]/BigEndian reads behind the minLen guard, shard indexing, nil shard/map access) yield exactly when Go would panic and Hang is fuel exhaustion; v5: every datagram is safe. sFlow is added under C07 (see notes). The hand models are tied to the code by differential execution on an adversarial stream (adversarial templates, boundary values in every 16/32-bit length field, truncation, flips, insertion/deletion), comparing outcome class and decoded content, with each datagram run under recover() and a watchdog.",
   note="Trusted: Coq kernel; hand models Reader/Flow/Cache/Ipfix/Nf9/Nf5 (correspondence); that Go panics exactly where the model's checked primitives say (slice/index bounds, nil map write, nil pointer); JSON encoding functions are total in the model (tie: C05 correspondence). sFlow/packet decoders: correspondence only until C07's model lands. Closed under the global context.",
   technique="Coq safety proof (Panic/Hang unreachable) by invariants over histories + differential correspondence on a malformed stream"),
 "C02": dict(
   text="Proof (Coq): every loop of the IPFIX/v9/v5 decoder models runs on explicit fuel S(length payload); the theorems show the fuel never runs out for any payload, cache and history (each iteration consumes at least one octet or exits), and that a datagram of n octets yields at most n records (v5: 48 octets per flow, at most 30). Allocation is not a theorem: the real code's TotalAlloc delta, record count and time per datagram are measured on the adversarial stream against a linear bound (256*octets+32KiB).",
   note="Partial: the memory bound is measured on the implementation (runtime.MemStats), not proved; the proof covers termination and record counts. Trusted as for C01.",
   technique="Coq progress/termination proof with explicit fuel + measured allocation bound on the implementation"),
 "C04": dict(
   text="Proof (Coq): the specification is a map keyed by the full (exporter address, template id) (latest-insertion and frame lemmas); the concrete 32-shard, FNV-indexed cache refines it (insert/retrieve, via injectivity of the address||id key); the IPFIX and v9 decoders are proved parametric in the cache, so on EVERY history the outputs against the concrete cache equal the outputs against the abstract map; exporter isolation: an exporter's outputs within any history equal its outputs when its datagrams are decoded alone; unknown template => no records + non-fatal report. Tie: multi-exporter histories (overlapping ids, re-announcements, data before/after announcement, 4/16-byte forms, near-identical IPv6 exporters, FNV-colliding pairs found by a seeded birthday search) against the real decoders and caches, plus an independent Python oracle.",
   note="Trusted: Coq kernel; hand models (correspondence); hash/fnv modelled in Cache.v (sampled through shard selection only - after the fix the hash no longer affects lookup results); the Go map is modelled as an association list. Closed under the global context.",
   technique="Coq refinement proof (concrete sharded cache vs abstract map) lifted to histories by a parametricity lemma + differential correspondence"),
 "C11": dict(
   text="Proof (Coq): over EVERY parsed cache document (any number of shards, null shards, null maps, any keys/templates, any ShardNo) and the no-document case (absent, empty, unparsable, crash prefix), the loaded cache is well-formed (hence, with C01, every history decoded with it neither panics nor hangs), contains only templates that are in the file, and save-then-load of any well-formed cache is the identity (so every exporter's data decodes exactly as before). Tie: the real Dump/GetCache on caches reached by decoding, EVERY proper prefix of each saved file, structured documents generated from the document type (incl. well-formed JSON with type/range errors), byte-level mutations, absent/empty/directory paths, a smaller cache saved over a larger file; contents observed through Dump, usability by announcing and decoding after the load.",
   note="Trusted: Coq kernel; hand model of GetCache/Dump over the parsed document (correspondence); encoding/json (round trip of memCacheDisk; rejection of every proper prefix - an explicit assumption validated on every prefix of every sampled file); file-system semantics of ioutil.WriteFile. Closed under the global context.",
   technique="Coq proof over all parsed documents (total well-formedness, subset, round trip) + crash-prefix enumeration and structural corruption on the implementation"),
 "C10": dict(
   text="Proof (Coq): a generic theorem over Go's RWMutex discipline - if every thread's program passes the boolean protocol checker (every map access inside the matching lock region of its shard, writes under the write lock, no nested acquisition), then in EVERY reachable state of EVERY interleaving of ANY number of threads no two threads are about to access the same shard's map with one writing (inductive invariant: writer => exclusive, readers => no writer). The lock / map-access skeletons of insert, retrieve, allSetIds, Dump and IRPC.Get of both caches are REGENERATED from the Go AST on every run and the kernel checks all of them at all 32 shards (balanced operations compose, so any sequences of operations are covered). Tie: the real caches under the Go race detector with N+N decoders, concurrent Dump + reload and IRPC.Get, checking also that every lookup/reloaded template is one complete announced definition for exactly its key. Label: partial.",
   note="Partial: the theorem is about the lock protocol at shard granularity; that sync.RWMutex, Go maps and the memory model implement it, the start-up window before mCache is assigned, and getShard's append(addr,...) not touching a shared backing array are runtime facts covered only by the sampled race-detector runs. 'Complete template previously announced for exactly that key' rests on C04's sequential refinement plus race freedom. Closed under the global context.",
   technique="Coq invariant proof over all interleavings of a lock-protocol model whose programs are regenerated from the Go AST + race-detector stress"),
}
REASON_TODO = "check under construction in this build session (not yet claimed)"
props = [json.loads(l) for l in open(os.path.join(ROOT, "properties.jsonl"))]
claimed = sorted(CLAIMS)
man = {"version": 1, "setup_cmd": "./setup.sh",
 "hooks": {"guard": "verif", "enable": "go build/test -tags verif (Go harness and the in-package verif driver are compiled with -tags verif)",
           "baseline_off_cmd": "cd /repo && go build ./... && go test -vet=off -count=1 ./ipfix/ ./mirror/ ./netflow/... ./packet/ ./producer/ ./reader/ ./sflow/ ./stress/hammer/",
           "source_commits": [], "add_only": True},
 "engines": [
  {"name": "translator", "path": "extract/", "serves_properties": claimed, "kind_free_text": "go/ast translator: /repo sources -> coq/Gen/*.v on every run"},
  {"name": "coq-development", "path": "coq/", "serves_properties": claimed, "kind_free_text": "Coq 8.16.1: Model/ (executable models), Proofs/, Properties/ (theorems only), Gen/ (regenerated), Pinned/; full .vo build"},
  {"name": "extracted-model", "path": "ocaml/", "serves_properties": claimed, "kind_free_text": "OCaml extraction of Model/Driver.v (ExtrOcamlBasic only) + read/print loop"},
  {"name": "go-harness", "path": "harness/", "serves_properties": claimed, "kind_free_text": "runs the real vflow code on the same case lines (replace => /repo, -tags verif)"},
  {"name": "orchestrator", "path": "check", "serves_properties": claimed, "kind_free_text": "python3 stdlib: build, generators, differ, property oracles, known findings, evidence"}],
 "checks": [], "notes": "Approach, per-property theorems, trusted base and findings: DESIGN.md. known_findings.json lists recorded/fixed defects.", "not_applicable": []}
for p in props:
    i = p["id"]
    if i in CLAIMS:
        c = CLAIMS[i]
        man["checks"].append({"property_id": i, "quick_cmd": "./check %s --tier quick" % i, "thorough_cmd": "./check %s --tier thorough" % i,
            "evidence_file": "evidence/%s.json" % i, "replay_cmd_template": "./check %s --replay {path}" % i, "engine": "coq-development",
            "level_claimed": {"category": "proof", "text": c["text"], "design_ref": "DESIGN.md section 7 (%s)" % i},
            "level_note": c["note"], "technique": c["technique"]})
    else:
        man["not_applicable"].append({"property_id": i, "reason": REASON_TODO})
json.dump(man, open(os.path.join(ROOT, "MANIFEST.json"), "w"), indent=1)
print("claimed:", claimed)
