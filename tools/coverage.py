#!/usr/bin/env python3
"""tools/coverage.py — statement coverage of the decoder packages under the quick-tier case streams of the
flow/sFlow/reader/cache checks (how much of the real code the correspondence actually exercises).
Builds a coverage-instrumented copy of the harness under .build/, runs the case lines, prints per-package
percentages and the uncovered ranges.  Diagnostic only (not part of any check)."""
import sys, os, random, subprocess, glob, importlib, re, collections, shutil
ROOT = os.path.dirname(os.path.dirname(os.path.abspath(__file__)))
sys.path.insert(0, os.path.join(ROOT, "lib"))
import vf
out = os.path.join(ROOT, ".build", "cover"); shutil.rmtree(out, ignore_errors=True); os.makedirs(out + "/data")
exe = out + "/impl.cover"
subprocess.run(["go", "build", "-tags", "verif", "-cover", "-coverpkg=github.com/EdgeCast/vflow/...,verif/harness/...", "-o", exe, "./cmd/impl"],
               cwd=vf.HARNESS, env=vf.GOENV, check=True)
lines = []
for pid in ("c01", "c03", "c04", "c05", "c06", "c07", "c08", "c09", "c11", "c18", "c19"):
    p = importlib.import_module("props." + pid).PROP
    rng = random.Random(1000003 + sum(map(ord, pid.upper())))
    ls = p.cases("quick", rng, p.budget("quick"))
    for f in sorted(glob.glob(os.path.join(ROOT, "corpus", pid.upper(), "*.case"))):
        ls += [l.rstrip("\n") for l in open(f) if l.strip() and not l.startswith("#")]
    lines += ls
subprocess.run([exe], input="\n".join(lines) + "\n", text=True, capture_output=True, env=dict(vf.GOENV, GOCOVERDIR=out + "/data"))
pc = subprocess.run(["go", "tool", "covdata", "percent", "-i=" + out + "/data"], cwd=vf.HARNESS, env=vf.GOENV, capture_output=True, text=True).stdout
print("%d case lines" % len(lines))
for l in pc.split("\n"):
    if any(k in l for k in ("/ipfix", "/netflow", "/sflow", "/packet", "/reader")):
        print(l.strip())
subprocess.run(["go", "tool", "covdata", "textfmt", "-i=" + out + "/data", "-o", out + "/cov.txt"], cwd=vf.HARNESS, env=vf.GOENV)
un = collections.defaultdict(set)
for l in open(out + "/cov.txt"):
    m = re.match(r"(.*):(\d+)\.\d+,(\d+)\.\d+ \d+ (\d+)", l)
    if m and int(m.group(4)) == 0 and "/vflow/" in m.group(1) and not any(k in m.group(1) for k in ("memcache_rpc", "/producer/", "/vflow/vflow/", "/mirror/", "/disc/", "/monitor/")):
        un[m.group(1).split("vflow/")[-1]].add((int(m.group(2)), int(m.group(3))))
for f in sorted(un):
    print(f, sorted(un[f]))
