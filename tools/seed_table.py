#!/usr/bin/env python3
"""prints the markdown table 'which checks catch which seeded change' from seeded/*/meta.json"""
import json, glob, os
rows = []
for d in sorted(glob.glob(os.path.join(os.path.dirname(os.path.dirname(os.path.abspath(__file__))), "seeded", "*"))):
    try:
        m = json.load(open(os.path.join(d, "meta.json")))
    except Exception:
        continue
    what = " ".join(m.get("breaks", "").split())
    what = what[:170] + ("…" if len(what) > 170 else "")
    caught = [c for c, r in m.get("checks", {}).items() if isinstance(r, dict) and r.get("exit") == 1]
    missed = [c for c, r in m.get("checks", {}).items() if isinstance(r, dict) and r.get("exit") == 0]
    note = m.get("note", "")
    res = ", ".join(caught) if caught else ("— (" + (note or "not caught") + ")")
    if caught and any("no-failing-input-found" in m["checks"][c].get("line", "") for c in caught):
        res += " (no-failing-input-found)"
    rows.append("| `%s` | %s | %s |" % (os.path.basename(d), what.replace("|", "/"), res))
print("| seed | change | caught by |\n|---|---|---|")
print("\n".join(rows))
