#!/usr/bin/env python3
"""tools/seedrun.py <repo dir> <out.json> [name...] — regression of the seeded changes on a repository SNAPSHOT (never /repo):
for every seeded/<name>/ apply its patch (patch.rebased.diff if present), run the checks that caught it when it was
stored (meta.json), record whether they still do."""
import json, os, subprocess, sys, glob, time
repo, outf, names = sys.argv[1], os.path.abspath(sys.argv[2]), sys.argv[3:]
assert os.path.realpath(repo) != "/repo"
root = os.path.dirname(os.path.dirname(os.path.abspath(__file__)))
env = dict(os.environ, VERIF_REPO=repo)
res = {}
for d in sorted(x for x in glob.glob(os.path.join(root, "seeded", "*")) if os.path.isdir(x)):
    name = os.path.basename(d)
    if names and name not in names:
        continue
    meta = json.load(open(os.path.join(d, "meta.json")))
    checks = [c for c, r in meta.get("checks", {}).items() if isinstance(r, dict) and r.get("exit") == 1]
    if not checks:
        res[name] = {"skipped": "no check is expected to catch it (see meta.json note)"}; continue
    subprocess.run("git checkout -q -- . && git clean -fdq", shell=True, cwd=repo)
    ok = False
    for p in ("patch.rebased.diff", "patch.diff"):
        if os.path.exists(os.path.join(d, p)) and subprocess.run(["git", "apply", os.path.join(d, p)], cwd=repo, capture_output=True).returncode == 0:
            ok = True; break
    if not ok:
        res[name] = {"apply": "does not apply"}; print(name, "DOES NOT APPLY", flush=True); continue
    r = {}
    for c in checks[:2]:
        q = subprocess.run(["./check", c], cwd=root, env=env, capture_output=True, text=True)
        v = [l for l in (q.stdout + q.stderr).split("\n") if l.startswith("VIOLATION")]
        r[c] = {"exit": q.returncode, "violation": v[0] if v else ""}
        print(name, c, q.returncode, v[:1], flush=True)
    res[name] = r
    json.dump(res, open(outf, "w"), indent=1)
subprocess.run("git checkout -q -- . && git clean -fdq", shell=True, cwd=repo)
json.dump(res, open(outf, "w"), indent=1)
missed = [n for n, r in res.items() if isinstance(r, dict) and not r.get("skipped") and not any(isinstance(x, dict) and x.get("exit") == 1 for x in r.values())]
print("MISSED:", missed)
