#!/usr/bin/env python3
"""tools/seed.py keep <ID> <m> [check ids...]
Confirms a sub-agent's seeded change in its scratch worktree (/tmp/seed/<ID>): demo passes on the clean
tree; with the patch the repo builds, the pinned suite passes and the demo fails.  Then stores it as
/verif/seeded/<ID>-<m>/ and runs the given checks (default: <ID>) against /repo with the patch applied
(git apply; always undone)."""
import json, os, re, shutil, subprocess, sys, time
ENV = dict(os.environ, GOFLAGS="-mod=mod", GOPROXY="off", GOSUMDB="off", GOTOOLCHAIN="local")
SUITE = "go build ./... && go test -vet=off -count=1 ./ipfix/ ./mirror/ ./netflow/... ./packet/ ./producer/ ./reader/ ./sflow/ ./stress/hammer/"

def save_evidence():
    """checks run against a mutated /repo must not leave their evidence behind: evidence/ is restored afterwards"""
    import tempfile
    d = tempfile.mkdtemp(prefix="evidence-keep-", dir="/verif/.build")
    if os.path.isdir("/verif/evidence"):
        shutil.copytree("/verif/evidence", d + "/evidence")
    return d


def restore_evidence(d):
    if os.path.isdir(d + "/evidence"):
        shutil.rmtree("/verif/evidence", ignore_errors=True)
        shutil.copytree(d + "/evidence", "/verif/evidence")
    shutil.rmtree(d, ignore_errors=True)


def sh(cmd, cwd):
    p = subprocess.run(cmd, shell=True, cwd=cwd, env=ENV, stdout=subprocess.PIPE, stderr=subprocess.STDOUT, text=True, timeout=1200)
    return p.returncode, p.stdout

def recheck(name, checks):
    """tools/seed.py recheck <seeded dir name> [check ids...]: re-run checks against /repo with the stored patch applied"""
    dst = "/verif/seeded/" + name
    meta = json.load(open(dst + "/meta.json"))
    checks = checks or [meta["property"]]
    rc, out = sh("git status --porcelain", "/repo")
    if out.strip():
        print("REFUSING: /repo is not clean"); return 1
    applied = None
    for c in (dst + "/patch.rebased.diff", dst + "/patch.diff"):
        if os.path.exists(c):
            rc, out = sh("git -C /repo apply %s" % c, "/repo")
            if rc == 0:
                applied = os.path.basename(c); break
    if not applied:
        print(name, "DOES NOT APPLY"); return 1
    ev = save_evidence()
    try:
        for c in checks:
            t = time.time()
            rc, out = sh("./check %s --tier quick" % c, "/verif")
            v = [l for l in out.split("\n") if l.startswith("VIOLATION")]
            meta.setdefault("checks", {})[c] = {"exit": rc, "line": v[0] if v else "", "wall_s": round(time.time() - t, 1)}
            print(name, c, rc, v[:1])
    finally:
        sh("git reset -q --hard HEAD; git clean -fdq", "/repo")
        restore_evidence(ev)
        # the regenerated tables follow /repo: bring them back to the clean tree
        sh("python3 -c 'import sys; sys.path.insert(0, \"lib\"); import vf; vf.run_translator()'", "/verif")
    json.dump(meta, open(dst + "/meta.json", "w"), indent=1)
    return 0


def main():
    if sys.argv[1] == "recheck":
        return recheck(sys.argv[2], sys.argv[3:])
    mode, pid, m = sys.argv[1], sys.argv[2], sys.argv[3]
    checks = sys.argv[4:] or [pid]
    root = os.environ.get("SEED_ROOT", "/tmp/seed")
    wt, src = root + "/" + pid, root + "/%s-out/%s" % (pid, m)
    demo_txt = open(src + "/demo.txt").read()
    demos = [f for f in os.listdir(src) if f.endswith(".go")]
    placed = []
    sh("git checkout -- . && git clean -fdq", wt)
    def place():
        for d in demos:
            mm = re.search(r"([\w/.-]*/)" + re.escape(d), demo_txt)
            rel = (mm.group(1) if mm else "") + d
            rel = re.sub(r"^(%s/%s/|<repo root>/|\./)" % (re.escape(root), pid), "", rel).lstrip("/")
            os.makedirs(os.path.dirname(os.path.join(wt, rel)) or wt, exist_ok=True)
            shutil.copy(os.path.join(src, d), os.path.join(wt, rel))
            if rel not in placed: placed.append(rel)
    cm = re.search(r"(go (?:test|run) [^\n]*)", demo_txt)
    cmd = cm.group(1).strip()
    res = {}
    place()
    rc, out = sh(cmd, wt); res["demo_clean_passes"] = (rc == 0)
    sh("git checkout -- . && git clean -fdq", wt)
    rc, out = sh("git apply %s/patch.diff" % src, wt); res["patch_applies"] = (rc == 0)
    rc, out = sh(SUITE, wt); res["suite_passes_with_patch"] = (rc == 0 and "FAIL" not in out)
    place()
    rc, out = sh(cmd, wt); res["demo_fails_with_patch"] = (rc != 0); res["demo_output_tail"] = out[-500:]
    sh("git checkout -- . && git clean -fdq", wt)
    print(json.dumps({k: v for k, v in res.items() if k != "demo_output_tail"}))
    ok = all(res[k] for k in ("demo_clean_passes", "patch_applies", "suite_passes_with_patch", "demo_fails_with_patch"))
    if not ok:
        print("NOT CONFIRMED", out[-800:]); return 1
    dst = "/verif/seeded/%s-%s%s" % (pid, os.environ.get("SEED_TAG", ""), m)
    os.makedirs(dst, exist_ok=True)
    shutil.copy(src + "/patch.diff", dst + "/patch.diff")
    for d in demos: shutil.copy(os.path.join(src, d), dst)
    shutil.copy(src + "/demo.txt", dst + "/demo.txt")
    meta = {"property": pid, "breaks": open(src + "/meta.txt").read().strip(), "demo_files": placed, "demo_cmd": cmd,
            "confirmed": res, "confirmed_in": "scratch worktree of /repo at " + sh("git rev-parse --short HEAD", wt)[1].strip(), "checks": {}}
    # run our checks against /repo with the patch applied (a hand-rebased patch.rebased.diff, if present,
    # is used when fix: commits in /repo made the original patch inapplicable)
    rc, out = sh("git status --porcelain", "/repo")
    if out.strip():
        print("REFUSING: /repo is not clean"); return 1
    cand = [dst + "/patch.rebased.diff", dst + "/patch.diff"]
    applied = None
    for c in cand:
        if os.path.exists(c):
            rc, out = sh("git -C /repo apply %s" % c, "/repo")
            if rc == 0:
                applied = os.path.basename(c); break
    if not applied:
        meta["checks"]["apply_to_current_repo"] = "patch does not apply to /repo HEAD (needs patch.rebased.diff): " + out[-300:]
        print("DOES NOT APPLY to current /repo")
    else:
        meta["applied_to_current_repo"] = applied
        ev = save_evidence()
        try:
            for c in checks:
                t = time.time()
                rc, out = sh("./check %s --tier quick" % c, "/verif")
                v = [l for l in out.split("\n") if l.startswith("VIOLATION")]
                meta["checks"][c] = {"exit": rc, "line": v[0] if v else "", "wall_s": round(time.time() - t, 1)}
                print(c, rc, v[:1], "" if rc in (0, 1) else out[-400:])
        finally:
            sh("git reset -q --hard HEAD; git clean -fdq", "/repo")
            restore_evidence(ev)
            sh("python3 -c 'import sys; sys.path.insert(0, \"lib\"); import vf; vf.run_translator()'", "/verif")
    json.dump(meta, open(dst + "/meta.json", "w"), indent=1)
    return 0
sys.exit(main())
