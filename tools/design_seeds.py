#!/usr/bin/env python3
"""splices the table printed by tools/seed_table.py into DESIGN.md between the SEEDS-TABLE markers"""
import os, subprocess, sys
root = os.path.dirname(os.path.dirname(os.path.abspath(__file__)))
t = subprocess.run([sys.executable, os.path.join(root, "tools", "seed_table.py")], stdout=subprocess.PIPE, text=True).stdout
p = os.path.join(root, "DESIGN.md")
s = open(p).read()
a, b = s.index("<!-- SEEDS-TABLE-BEGIN -->"), s.index("<!-- SEEDS-TABLE-END -->")
s = s[:a] + "<!-- SEEDS-TABLE-BEGIN -->\n" + t + s[b:]
open(p, "w").write(s)
