// dispatch.go: the mirror dispatchers (vflow/ipfix_unix.go mirrorIPFIXDispatcher, vflow/sflow_unix.go mirrorSFlowDispatcher) as the
// facts Model/MirrorDispatch.v rests on: the endless loop takes a message off the mirror queue and sends it to one of two queues
// by `msg.raddr.IP.To4() != nil`; the mirror workers are started on the queue chosen by `dst.To4() != nil`.  Anything else in the
// loop (an index into the address, a computed worker number, a drop) shows as "other:<statement>".  Emitted as Gen/Dispatch.v.
package main

import (
	"fmt"
	"go/ast"
	"go/token"
	"strings"
)

func genDispatch() {
	ds := []struct{ name, file, fn, worker string }{
		{"ipfix", "vflow/ipfix_unix.go", "mirrorIPFIXDispatcher", "mirrorIPFIX"},
		{"sflow", "vflow/sflow_unix.go", "mirrorSFlowDispatcher", "mirrorSFlow"},
	}
	var rows []string
	man := map[string]interface{}{}
	for _, d := range ds {
		_, f := parseFile(d.file)
		loop, start := []string{"none"}, []string{"none"}
		for _, dd := range f.Decls {
			fd, ok := dd.(*ast.FuncDecl)
			if !ok || fd.Name.Name != d.fn || fd.Body == nil {
				continue
			}
			// the queue parameter
			q := ""
			if len(fd.Type.Params.List) == 1 && len(fd.Type.Params.List[0].Names) == 1 {
				q = fd.Type.Params.List[0].Names[0].Name
			}
			// if COND { X <- msg } else { Y <- msg }   /   if COND { go worker(.., X) } else { go worker(.., Y) }
			branch := func(ifs *ast.IfStmt, msgVar string) (string, string, string, bool) {
				if ifs.Init != nil || ifs.Else == nil || len(ifs.Body.List) != 1 {
					return "", "", "", false
				}
				eb, ok := ifs.Else.(*ast.BlockStmt)
				if !ok || len(eb.List) != 1 {
					return "", "", "", false
				}
				target := func(s ast.Stmt) string {
					switch x := s.(type) {
					case *ast.SendStmt:
						if squash(exprString(x.Value)) == msgVar {
							return squash(exprString(x.Chan))
						}
					case *ast.GoStmt:
						if squash(exprString(x.Call.Fun)) == d.worker && len(x.Call.Args) == 3 {
							return squash(exprString(x.Call.Args[2]))
						}
					}
					return ""
				}
				a, b := target(ifs.Body.List[0]), target(eb.List[0])
				if a == "" || b == "" {
					return "", "", "", false
				}
				c := squash(exprString(ifs.Cond))
				if msgVar != "" {
					c = strings.ReplaceAll(c, msgVar+".", "msg.")
				}
				return c, a, b, true
			}
			ast.Inspect(fd.Body, func(n ast.Node) bool {
				fs, ok := n.(*ast.ForStmt)
				if !ok {
					return true
				}
				if fs.Cond == nil && fs.Init == nil && fs.Post == nil {
					// the dispatch loop: msg = <-q ; if ...
					var ev []string
					msgVar := ""
					for _, st := range fs.Body.List {
						switch x := st.(type) {
						case *ast.AssignStmt:
							if len(x.Rhs) == 1 {
								if u, ok := x.Rhs[0].(*ast.UnaryExpr); ok && u.Op == token.ARROW && squash(exprString(u.X)) == q && len(x.Lhs) == 1 {
									msgVar = squash(exprString(x.Lhs[0]))
									ev = append(ev, "recv")
									continue
								}
							}
							ev = append(ev, "other:"+squash(exprString(st)))
						case *ast.IfStmt:
							if c, a, b, ok := branch(x, msgVar); ok {
								ev = append(ev, "if "+c+" then "+a+" else "+b)
							} else {
								ev = append(ev, "other:"+squash(exprString(x.Cond)))
							}
						default:
							ev = append(ev, "other:"+squash(exprString(st)))
						}
					}
					loop = ev
					return false
				}
				// the loop that starts the workers
				var ev []string
				for _, st := range fs.Body.List {
					switch x := st.(type) {
					case *ast.AssignStmt:
						// dst := net.ParseIP(opts.XMirrorAddr)
						if len(x.Lhs) == 1 && len(x.Rhs) == 1 && strings.HasPrefix(squash(exprString(x.Rhs[0])), "net.ParseIP(") {
							continue
						}
						ev = append(ev, "other:"+squash(exprString(st)))
					case *ast.IfStmt:
						if c, a, b, ok := branch(x, ""); ok {
							ev = append(ev, "if "+c+" then "+a+" else "+b)
						} else {
							ev = append(ev, "other:"+squash(exprString(x.Cond)))
						}
					default:
						ev = append(ev, "other:"+squash(exprString(st)))
					}
				}
				start = ev
				return false
			})
		}
		if len(loop) == 1 && loop[0] == "none" {
			problem("%s: %s: no dispatch loop found", d.file, d.fn)
		}
		// canonical names: the queue the IPv4-target workers read is Q4, the other one Q6 (as the start loop pairs them), the parsed
		// target address is dst: a renamed variable is the same dispatcher
		if len(start) == 1 && strings.HasPrefix(start[0], "if ") {
			var c, a, b string
			if i := strings.Index(start[0], " then "); i > 0 {
				c = start[0][3:i]
				rest := start[0][i+6:]
				if j := strings.Index(rest, " else "); j > 0 {
					a, b = rest[:j], rest[j+6:]
				}
			}
			if a != "" && b != "" && a != b {
				if k := strings.Index(c, ".To4()"); k > 0 {
					c = "dst" + c[k:]
				}
				start[0] = "if " + c + " then Q4 else Q6"
				for i, x := range loop {
					if strings.HasPrefix(x, "if ") {
						x = strings.Replace(x, " then "+a+" else "+b, " then Q4 else Q6", 1)
						x = strings.Replace(x, " then "+b+" else "+a, " then Q6 else Q4", 1)
						loop[i] = x
					}
				}
			}
		}
		cl := func(l []string) string {
			var q []string
			for _, x := range l {
				q = append(q, coqStr(x))
			}
			return "[" + strings.Join(q, "; ") + "]"
		}
		rows = append(rows, fmt.Sprintf("(%s, %s, %s)", coqStr(d.name), cl(start), cl(loop)))
		man[d.name] = map[string]interface{}{"start": start, "loop": loop}
	}
	var b strings.Builder
	b.WriteString(header("mirrorIPFIXDispatcher (vflow/ipfix_unix.go) and mirrorSFlowDispatcher (vflow/sflow_unix.go)"))
	b.WriteString("(* pipeline, the statements of the loop that starts the mirror workers, the statements of the endless dispatch loop *)\n")
	b.WriteString("Definition dispatchers : list (string * list string * list string) :=\n  [" + strings.Join(rows, ";\n   ") + "].\n")
	writeIfChanged("Dispatch.v", b.String())
	manifest["dispatch"] = man
}

func init() { extraGenerators = append(extraGenerators, genDispatch) }
