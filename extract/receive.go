// receive.go: the receive loops of run() in vflow/{ipfix,netflow_v9,netflow_v5,sflow}.go, `for !x.stop { ... }`, as the
// sequence of their statements in canonical spelling (B = the buffer taken from the pool, N / A / E = what ReadFromUDP returned):
//   Get  Deadline  Read  Skip:<condition of an `if ... { continue }`>  Count  Send:<payload expression>  Other:<statement>
// Emitted as Gen/Receive.v; Properties/C13.v proves every loop to be the one the accounting model assumes: every datagram that
// ReadFromUDP returned without error is counted and queued with exactly its N octets, whatever N is.
package main

import (
	"fmt"
	"go/ast"
	"go/token"
	"strings"
)

func genReceive() {
	ws := []struct{ name, file, pool string }{
		{"ipfix", "vflow/ipfix.go", "ipfixBuffer"},
		{"nf9", "vflow/netflow_v9.go", "netflowV9Buffer"},
		{"nf5", "vflow/netflow_v5.go", "netflowV5Buffer"},
		{"sflow", "vflow/sflow.go", "sFlowBuffer"},
	}
	var rows []string
	man := map[string]interface{}{}
	idx := indexPackage("vflow")
	for _, w := range ws {
		_, f := parseFile(w.file)
		var evs []string
		found := false
		for _, d := range f.Decls {
			fd, ok := d.(*ast.FuncDecl)
			if !ok || fd.Name.Name != "run" || fd.Recv == nil || fd.Body == nil {
				continue
			}
			rt, rv := recvOf(fd)
			for _, st := range idx.stmtsThroughHelpers(fd.Body.List, rt, rv, 2) {
				loop, ok := st.(*ast.ForStmt)
				if !ok {
					continue
				}
				body := loop.Body.List
				switch {
				case loop.Cond != nil && strings.HasSuffix(squash(exprString(loop.Cond)), ".stop") && strings.HasPrefix(squash(exprString(loop.Cond)), "!"):
				case loop.Cond == nil && loop.Init == nil && loop.Post == nil && len(body) > 0:
					// for { if x.stop { break }; ... } is the same loop
					ifs, ok := body[0].(*ast.IfStmt)
					if !ok || ifs.Init != nil || ifs.Else != nil || !strings.HasSuffix(squash(exprString(ifs.Cond)), ".stop") || strings.HasPrefix(squash(exprString(ifs.Cond)), "!") || len(ifs.Body.List) != 1 {
						continue
					}
					if b, ok := ifs.Body.List[0].(*ast.BranchStmt); !ok || b.Tok != token.BREAK {
						continue
					}
					body = body[1:]
				default:
					continue
				}
				found = true
				env := map[string]ast.Expr{}
				canon := func(e ast.Node) string {
					if x, ok := e.(ast.Expr); ok {
						return squash(exprString(substExpr(x, env)))
					}
					return squash(exprString(e))
				}
				for _, s := range body {
					switch x := s.(type) {
					case *ast.AssignStmt:
						rhs := squash(exprString(x.Rhs[0]))
						switch {
						case len(x.Lhs) == 1 && strings.HasPrefix(rhs, w.pool+".Get()"):
							env[exprString(x.Lhs[0])] = ast.NewIdent("B")
							evs = append(evs, "Get")
						case len(x.Lhs) == 3 && strings.HasSuffix(squash(exprString(x.Rhs[0].(*ast.CallExpr).Fun)), ".ReadFromUDP") && canon(x.Rhs[0].(*ast.CallExpr).Args[0]) == "B":
							env[exprString(x.Lhs[0])] = ast.NewIdent("N")
							env[exprString(x.Lhs[1])] = ast.NewIdent("A")
							env[exprString(x.Lhs[2])] = ast.NewIdent("E")
							evs = append(evs, "Read")
						default:
							evs = append(evs, "Other:"+canon(x.Rhs[0]))
						}
					case *ast.ExprStmt:
						c, isCall := x.X.(*ast.CallExpr)
						switch {
						case isCall && strings.HasSuffix(squash(exprString(c.Fun)), ".SetReadDeadline"):
							evs = append(evs, "Deadline")
						case isCall && squash(exprString(c.Fun)) == "atomic.AddUint64" && len(c.Args) == 2 && strings.HasSuffix(squash(exprString(c.Args[0])), "stats.UDPCount") && squash(exprString(c.Args[1])) == "1":
							evs = append(evs, "Count")
						default:
							evs = append(evs, "Other:"+canon(x.X))
						}
					case *ast.IfStmt:
						onlyContinue := x.Init == nil && x.Else == nil && len(x.Body.List) >= 1
						if onlyContinue {
							b, ok := x.Body.List[len(x.Body.List)-1].(*ast.BranchStmt)
							onlyContinue = ok && b.Tok == token.CONTINUE
						}
						if onlyContinue {
							evs = append(evs, "Skip:"+canon(x.Cond))
						} else {
							evs = append(evs, "Other:if "+canon(x.Cond))
						}
					case *ast.SendStmt:
						payload := "?"
						if cl, ok := x.Value.(*ast.CompositeLit); ok && len(cl.Elts) == 2 {
							v := cl.Elts[1]
							if kv, ok := v.(*ast.KeyValueExpr); ok {
								v = kv.Value
							}
							addr := cl.Elts[0]
							if kv, ok := addr.(*ast.KeyValueExpr); ok {
								addr = kv.Value
							}
							payload = canon(addr) + "," + canon(v)
						}
						if strings.HasSuffix(squash(exprString(x.Chan)), "UDPCh") {
							evs = append(evs, "Send:"+payload)
						} else {
							evs = append(evs, "Other:send "+squash(exprString(x.Chan)))
						}
					default:
						evs = append(evs, "Other:"+squash(exprString(s)))
					}
				}
			}
		}
		if !found {
			problem("%s: no receive loop `for !x.stop` in run()", w.file)
			evs = []string{"Other:missing"}
		}
		var q []string
		for _, e := range evs {
			q = append(q, coqStr(e))
		}
		rows = append(rows, fmt.Sprintf("(%s, [%s])", coqStr(w.name), strings.Join(q, "; ")))
		man[w.name] = evs
	}
	var b strings.Builder
	b.WriteString(header("the receive loops of run() in vflow/{ipfix,netflow_v9,netflow_v5,sflow}.go"))
	b.WriteString("(* pipeline, the statements of its receive loop in source order, canonical spelling *)\n")
	b.WriteString("Definition receive_loops : list (string * list string) :=\n  [" + strings.Join(rows, ";\n   ") + "].\n")
	writeIfChanged("Receive.v", b.String())
	manifest["receive"] = man
}

func init() { extraGenerators = append(extraGenerators, genReceive) }
