package main

import (
	"bytes"
	"fmt"
	"go/ast"
	"go/printer"
	"go/token"
	"sort"
	"strings"
)

// Linear wire layouts: every `unmarshal` method that is a straight sequence of fixed-width
// big-endian reads is turned into an ordered list (field name, width).  A statement that is
// not one of the recognised shapes becomes an item whose name starts with '!' (width 0), so the
// Coq side sees that the function is no longer a linear layout instead of silently ignoring it.
// A skipped region (Seek(n,1) or a Read(n) whose result is dropped) has the empty name.

type litem struct {
	name string
	w    int
}

type layoutSpec struct {
	coqName string
	file    string
	recv    string // receiver type name
	method  string
}

var layoutSpecs = []layoutSpec{
	{"nf5_header_layout", "netflow/v5/decoder.go", "PacketHeader", "unmarshal"},
	{"nf5_flow_layout", "netflow/v5/decoder.go", "FlowRecord", "unmarshal"},
	{"nf9_header_layout", "netflow/v9/decoder.go", "PacketHeader", "unmarshal"},
	{"nf9_set_header_layout", "netflow/v9/decoder.go", "SetHeader", "unmarshal"},
	{"ipfix_header_layout", "ipfix/decoder.go", "MessageHeader", "unmarshal"},
	{"ipfix_set_header_layout", "ipfix/decoder.go", "SetHeader", "unmarshal"},
	{"sf_flow_sample_layout", "sflow/flow_sample.go", "FlowSample", "unmarshal"},
	{"sf_ext_switch_layout", "sflow/flow_sample.go", "ExtSwitchData", "unmarshal"},
	{"sf_counter_sample_layout", "sflow/flow_counter.go", "CounterSample", "unmarshal"},
	{"sf_generic_layout", "sflow/flow_counter.go", "GenericInterfaceCounters", "unmarshal"},
	{"sf_ethernet_layout", "sflow/flow_counter.go", "EthernetInterfaceCounters", "unmarshal"},
	{"sf_tokenring_layout", "sflow/flow_counter.go", "TokenRingCounters", "unmarshal"},
	{"sf_vg_layout", "sflow/flow_counter.go", "VGCounters", "unmarshal"},
	{"sf_vlan_layout", "sflow/flow_counter.go", "VlanCounters", "unmarshal"},
	{"sf_processor_layout", "sflow/flow_counter.go", "ProcessorCounters", "unmarshal"},
}

func exprString(e ast.Node) string {
	var b bytes.Buffer
	printer.Fprint(&b, token.NewFileSet(), e)
	return strings.Join(strings.Fields(b.String()), " ")
}

var typeWidth = map[string]int{"uint8": 1, "byte": 1, "int8": 1, "uint16": 2, "int16": 2, "uint32": 4, "int32": 4, "uint64": 8, "int64": 8}

// struct field widths of every struct declared in the file
func structWidths(f *ast.File) map[string]map[string]int {
	out := map[string]map[string]int{}
	for _, d := range f.Decls {
		gd, ok := d.(*ast.GenDecl)
		if !ok || gd.Tok != token.TYPE {
			continue
		}
		for _, s := range gd.Specs {
			ts := s.(*ast.TypeSpec)
			st, ok := ts.Type.(*ast.StructType)
			if !ok {
				continue
			}
			m := map[string]int{}
			for _, fl := range st.Fields.List {
				w := 0
				if id, ok := fl.Type.(*ast.Ident); ok {
					w = typeWidth[id.Name]
				}
				for _, n := range fl.Names {
					m[n.Name] = w
				}
			}
			out[ts.Name.Name] = m
		}
	}
	return out
}

// integer-typed fields of a struct, in declaration order
func structFieldOrder(f *ast.File, name string) []string {
	var out []string
	for _, d := range f.Decls {
		gd, ok := d.(*ast.GenDecl)
		if !ok || gd.Tok != token.TYPE {
			continue
		}
		for _, s := range gd.Specs {
			ts := s.(*ast.TypeSpec)
			st, ok := ts.Type.(*ast.StructType)
			if !ok || ts.Name.Name != name {
				continue
			}
			for _, fl := range st.Fields.List {
				if id, ok := fl.Type.(*ast.Ident); ok && typeWidth[id.Name] != 0 {
					for _, n := range fl.Names {
						out = append(out, n.Name)
					}
				}
			}
		}
	}
	return out
}

// selField: x.F (x = receiver) -> "F"
func selField(e ast.Expr, recv string) (string, bool) {
	if u, ok := e.(*ast.UnaryExpr); ok && u.Op == token.AND {
		e = u.X
	}
	s, ok := e.(*ast.SelectorExpr)
	if !ok {
		return "", false
	}
	if id, ok := s.X.(*ast.Ident); ok && id.Name == recv {
		return s.Sel.Name, true
	}
	return "", false
}

var readerWidth = map[string]int{"Uint8": 1, "Uint16": 2, "Uint32": 4, "Uint64": 8}

func isErrCheckReturn(ifs *ast.IfStmt) bool {
	// cond: err != nil ; body: return err
	be, ok := ifs.Cond.(*ast.BinaryExpr)
	if !ok || be.Op != token.NEQ || exprString(be.X) != "err" || exprString(be.Y) != "nil" {
		return false
	}
	if len(ifs.Body.List) != 1 || ifs.Else != nil {
		return false
	}
	rs, ok := ifs.Body.List[0].(*ast.ReturnStmt)
	return ok && len(rs.Results) == 1 && exprString(rs.Results[0]) == "err"
}

// one read expressed as an assignment: `x.F, err = r.UintN()` or `err = read(r, &x.F)`
func readAssign(as *ast.AssignStmt, recvVar string, widths map[string]int, locals map[string]int) (litem, bool) {
	if len(as.Rhs) != 1 {
		return litem{}, false
	}
	call, ok := as.Rhs[0].(*ast.CallExpr)
	if !ok {
		return litem{}, false
	}
	if se, ok := call.Fun.(*ast.SelectorExpr); ok && len(as.Lhs) == 2 && exprString(as.Lhs[1]) == "err" {
		// _, err = r.Read(N): N octets consumed and dropped
		if se.Sel.Name == "Read" && len(call.Args) == 1 && exprString(as.Lhs[0]) == "_" {
			if n, ok := intLit(call.Args[0]); ok {
				return litem{"", int(n)}, true
			}
		}
		if w, ok := readerWidth[se.Sel.Name]; ok && len(call.Args) == 0 {
			if f, ok := selField(as.Lhs[0], recvVar); ok {
				if widths[f] != 0 && widths[f] != w {
					return litem{"!width-mismatch:" + f, 0}, true
				}
				return litem{f, w}, true
			}
		}
	}
	if id, ok := call.Fun.(*ast.Ident); ok && id.Name == "read" && len(call.Args) == 2 && len(as.Lhs) == 1 && exprString(as.Lhs[0]) == "err" {
		if f, ok := selField(call.Args[1], recvVar); ok {
			if widths[f] == 0 {
				return litem{"!unknown-width:" + f, 0}, true
			}
			return litem{f, widths[f]}, true
		}
		// read(r, &buf) with buf := make([]byte, N)
		if u, ok := call.Args[1].(*ast.UnaryExpr); ok && u.Op == token.AND {
			if id, ok := u.X.(*ast.Ident); ok {
				if n, ok := locals[id.Name]; ok {
					return litem{"@" + id.Name, n}, true
				}
			}
		}
	}
	return litem{}, false
}

// stickyReaders: helper types of the file that read consecutive fields and stop at the first failure:
//
//	type T struct { r *reader.Reader; err error }
//	func (f *T) m(dst *uintN) { if f.err == nil { *dst, f.err = f.r.UintN() } }
//
// Returns type name -> method name -> width, for the methods that have exactly that shape (so that `f.m(&x.F)` is a read of
// x.F of that width that happens only while no earlier read has failed, and `return f.err` returns the first failure).
func stickyReaders(f *ast.File) map[string]map[string]int {
	out := map[string]map[string]int{}
	for _, d := range f.Decls {
		fd, ok := d.(*ast.FuncDecl)
		if !ok || fd.Recv == nil || fd.Body == nil || len(fd.Recv.List) != 1 || len(fd.Recv.List[0].Names) != 1 {
			continue
		}
		rt := fd.Recv.List[0].Type
		if st, ok := rt.(*ast.StarExpr); ok {
			rt = st.X
		} else {
			continue // a value receiver could not keep the error
		}
		tn, ok := rt.(*ast.Ident)
		if !ok || fd.Type.Params == nil || len(fd.Type.Params.List) != 1 || len(fd.Type.Params.List[0].Names) != 1 || fd.Type.Results != nil {
			continue
		}
		rv, dst := fd.Recv.List[0].Names[0].Name, fd.Type.Params.List[0].Names[0].Name
		if len(fd.Body.List) != 1 {
			continue
		}
		ifs, ok := fd.Body.List[0].(*ast.IfStmt)
		if !ok || ifs.Init != nil || ifs.Else != nil || exprString(ifs.Cond) != rv+".err == nil" || len(ifs.Body.List) != 1 {
			continue
		}
		as, ok := ifs.Body.List[0].(*ast.AssignStmt)
		if !ok || len(as.Lhs) != 2 || len(as.Rhs) != 1 || as.Tok != token.ASSIGN || exprString(as.Lhs[0]) != "*"+dst || exprString(as.Lhs[1]) != rv+".err" {
			continue
		}
		for name, w := range readerWidth {
			if exprString(as.Rhs[0]) == rv+".r."+name+"()" {
				if pt, ok := fd.Type.Params.List[0].Type.(*ast.StarExpr); ok && typeWidth[exprString(pt.X)] == w {
					if out[tn.Name] == nil {
						out[tn.Name] = map[string]int{}
					}
					out[tn.Name][fd.Name.Name] = w
				}
			}
		}
	}
	return out
}

// variadicReaders: helpers of the file of the shape
//
//	func name(r io.Reader, fields ...interface{}) error { for _, f := range fields { if err := read(r, f); err != nil { return err } }; return nil }
//
// (the fields are read one after the other with the same `read`, stopping at the first failure)
func variadicReaders(f *ast.File) map[string]bool {
	out := map[string]bool{}
	for _, d := range f.Decls {
		fd, ok := d.(*ast.FuncDecl)
		if !ok || fd.Recv != nil || fd.Body == nil || fd.Type.Params == nil || len(fd.Type.Params.List) != 2 || len(fd.Body.List) != 2 {
			continue
		}
		p2 := fd.Type.Params.List[1]
		if _, ok := p2.Type.(*ast.Ellipsis); !ok || len(p2.Names) != 1 || len(fd.Type.Params.List[0].Names) != 1 {
			continue
		}
		rname, fields := fd.Type.Params.List[0].Names[0].Name, p2.Names[0].Name
		rs, ok := fd.Body.List[0].(*ast.RangeStmt)
		if !ok || exprString(rs.X) != fields || rs.Value == nil || len(rs.Body.List) != 1 {
			continue
		}
		ifs, ok := rs.Body.List[0].(*ast.IfStmt)
		if !ok || !isErrCheckReturn(ifs) {
			continue
		}
		as, ok := ifs.Init.(*ast.AssignStmt)
		if !ok || exprString(as.Rhs[0]) != fmt.Sprintf("read(%s, %s)", rname, exprString(rs.Value)) {
			continue
		}
		if ret, ok := fd.Body.List[1].(*ast.ReturnStmt); !ok || len(ret.Results) != 1 || exprString(ret.Results[0]) != "nil" {
			continue
		}
		out[fd.Name.Name] = true
	}
	return out
}

// orTerms: the |-separated terms of an expression, sorted (| is commutative)
func orTerms(s string) string {
	t := strings.Split(strings.ReplaceAll(s, " ", ""), "|")
	sort.Strings(t)
	return strings.Join(t, "|")
}

func extractLayout(f *ast.File, sp layoutSpec) []litem {
	widthsAll := structWidths(f)
	variadic := variadicReaders(f)
	sticky := stickyReaders(f)
	stickyVar, stickyType := "", ""
	for _, d := range f.Decls {
		fd, ok := d.(*ast.FuncDecl)
		if !ok || fd.Name.Name != sp.method || fd.Recv == nil || len(fd.Recv.List) != 1 {
			continue
		}
		rt := fd.Recv.List[0].Type
		if st, ok := rt.(*ast.StarExpr); ok {
			rt = st.X
		}
		if id, ok := rt.(*ast.Ident); !ok || id.Name != sp.recv {
			continue
		}
		recvVar := fd.Recv.List[0].Names[0].Name
		widths := widthsAll[sp.recv]
		locals := map[string]int{}
		var items []litem
		var listVar string
		var listItems []litem
		for _, st := range fd.Body.List {
			switch s := st.(type) {
			case *ast.DeclStmt:
				if exprString(s) == "var err error" {
					continue
				}
				items = append(items, litem{"!decl:" + exprString(s), 0})
			case *ast.ReturnStmt:
				if stickyVar != "" && !(len(s.Results) == 1 && exprString(s.Results[0]) == stickyVar+".err") {
					items = append(items, litem{"!return:" + exprString(s), 0}) // the first failure must be what is returned
				}
				if len(s.Results) == 1 {
					if call, ok := s.Results[0].(*ast.CallExpr); ok {
						if id, ok := call.Fun.(*ast.Ident); ok {
							switch {
							case id.Name == "read" && len(call.Args) == 2:
								// return read(r, &x.F): the last field
								if fn, ok := selField(call.Args[1], recvVar); ok && widths[fn] != 0 {
									items = append(items, litem{fn, widths[fn]})
								} else {
									items = append(items, litem{"!return:" + exprString(s), 0})
								}
							case variadic[id.Name] && len(call.Args) >= 1:
								// return readFields(r, &x.A, &x.B, ...): the fields in that order
								for _, a := range call.Args[1:] {
									if fn, ok := selField(a, recvVar); ok && widths[fn] != 0 {
										items = append(items, litem{fn, widths[fn]})
									} else {
										items = append(items, litem{"!list-element:" + exprString(a), 0})
									}
								}
							default:
								items = append(items, litem{"!return:" + exprString(s), 0})
							}
						} else {
							items = append(items, litem{"!return:" + exprString(s), 0})
						}
					}
				}
				continue
			case *ast.IfStmt:
				if as, ok := s.Init.(*ast.AssignStmt); ok && isErrCheckReturn(s) {
					if it, ok := readAssign(as, recvVar, widths, locals); ok {
						items = append(items, it)
						continue
					}
				}
				items = append(items, litem{"!if:" + exprString(s.Cond), 0})
			case *ast.AssignStmt:
				if it, ok := readAssign(s, recvVar, widths, locals); ok {
					items = append(items, it)
					continue
				}
				// f := T{r: r} with T a sticky-error field reader of this file
				if len(s.Lhs) == 1 && len(s.Rhs) == 1 && s.Tok == token.DEFINE && len(items) == 0 {
					if cl, ok := s.Rhs[0].(*ast.CompositeLit); ok && cl.Type != nil && sticky[exprString(cl.Type)] != nil && len(cl.Elts) == 1 {
						if kv, ok := cl.Elts[0].(*ast.KeyValueExpr); ok && exprString(kv.Key) == "r" && exprString(kv.Value) == "r" {
							stickyVar, stickyType = exprString(s.Lhs[0]), exprString(cl.Type)
							continue
						}
					}
				}
				// buf := make([]byte, N)
				if len(s.Lhs) == 1 && len(s.Rhs) == 1 {
					if call, ok := s.Rhs[0].(*ast.CallExpr); ok && exprString(call.Fun) == "make" && len(call.Args) == 2 && exprString(call.Args[0]) == "[]byte" {
						if n, ok := intLit(call.Args[1]); ok {
							locals[exprString(s.Lhs[0])] = int(n)
							continue
						}
					}
					// fields := []interface{}{&x.A, &x.B, ...}
					if cl, ok := s.Rhs[0].(*ast.CompositeLit); ok && exprString(cl.Type) == "[]interface{}" {
						listVar = exprString(s.Lhs[0])
						listItems = nil
						for _, e := range cl.Elts {
							if fn, ok := selField(e, recvVar); ok && widths[fn] != 0 {
								listItems = append(listItems, litem{fn, widths[fn]})
							} else {
								listItems = append(listItems, litem{"!list-element:" + exprString(e), 0})
							}
						}
						continue
					}
					// x.F = uint32(buf[2]) | uint32(buf[1])<<8 | uint32(buf[0])<<16   (big-endian of a 3-octet buffer)
					if fn, ok := selField(s.Lhs[0], recvVar); ok {
						rhs := exprString(s.Rhs[0])
						for b, n := range locals {
							if n == 3 && orTerms(rhs) == orTerms(fmt.Sprintf("uint32(%s[2]) | uint32(%s[1])<<8 | uint32(%s[0])<<16", b, b, b)) {
								for i := range items {
									if items[i].name == "@"+b {
										items[i].name = fn
										rhs = ""
									}
								}
							}
						}
						if rhs == "" {
							continue
						}
					}
				}
				items = append(items, litem{"!assign:" + exprString(s), 0})
			case *ast.ExprStmt:
				// f.u16(&x.F) through a sticky-error field reader
				if call, ok := s.X.(*ast.CallExpr); ok && stickyVar != "" {
					if se, ok := call.Fun.(*ast.SelectorExpr); ok && exprString(se.X) == stickyVar && len(call.Args) == 1 {
						if w, ok := sticky[stickyType][se.Sel.Name]; ok {
							if fn, ok := selField(call.Args[0], recvVar); ok {
								if widths[fn] != 0 && widths[fn] != w {
									items = append(items, litem{"!width-mismatch:" + fn, 0})
								} else {
									items = append(items, litem{fn, w})
								}
								continue
							}
						}
					}
				}
				// r.Seek(N, 1)
				if call, ok := s.X.(*ast.CallExpr); ok {
					if se, ok := call.Fun.(*ast.SelectorExpr); ok && se.Sel.Name == "Seek" && len(call.Args) == 2 {
						if n, ok := intLit(call.Args[0]); ok && (exprString(call.Args[1]) == "1" || exprString(call.Args[1]) == "io.SeekCurrent") {
							items = append(items, litem{"", int(n)})
							continue
						}
					}
				}
				items = append(items, litem{"!expr:" + exprString(s), 0})
			case *ast.RangeStmt:
				// for _, field := range fields { if err = read(r, field); err != nil { return err } }
				if exprString(s.X) == listVar && len(s.Body.List) == 1 {
					if ifs, ok := s.Body.List[0].(*ast.IfStmt); ok && isErrCheckReturn(ifs) {
						if as, ok := ifs.Init.(*ast.AssignStmt); ok && exprString(as) == fmt.Sprintf("err = read(r, %s)", exprString(s.Value)) {
							items = append(items, listItems...)
							continue
						}
					}
				}
				items = append(items, litem{"!range", 0})
			default:
				items = append(items, litem{"!stmt:" + exprString(s), 0})
			}
		}
		for i := range items {
			if strings.HasPrefix(items[i].name, "@") {
				items[i].name = "" // raw buffer never assigned to a field: skipped
			}
		}
		return items
	}
	return nil
}

func genLayouts() {
	var sb strings.Builder
	sb.WriteString(header("the unmarshal methods of netflow/v5, netflow/v9, ipfix and sflow"))
	sb.WriteString("(* (field name, width in octets) in source order; \"\" = octets skipped; a name starting with '!' = a\n   statement the translator does not recognise as a fixed-width read (the function is not a linear layout) *)\n\n")
	files := map[string]*ast.File{}
	info := map[string]interface{}{}
	for _, sp := range layoutSpecs {
		f, ok := files[sp.file]
		if !ok {
			_, f = parseFile(sp.file)
			files[sp.file] = f
		}
		items := extractLayout(f, sp)
		if items == nil {
			problem("layout %s: method (%s).%s not found in %s", sp.coqName, sp.recv, sp.method, sp.file)
			items = []litem{{"!missing", 0}}
		}
		var parts []string
		for _, it := range items {
			if strings.HasPrefix(it.name, "!") {
				problem("layout %s: %s", sp.coqName, it.name)
			}
			parts = append(parts, fmt.Sprintf("(%s, %d)", coqStr(it.name), it.w))
		}
		fmt.Fprintf(&sb, "Definition %s : list (string * Z) :=\n  [%s]%%Z.\n\n", sp.coqName, strings.Join(parts, "; "))
		// the struct's integer fields in DECLARATION order (what encoding/json and reflection see)
		var fnames []string
		for _, fn := range structFieldOrder(f, sp.recv) {
			fnames = append(fnames, coqStr(fn))
		}
		fmt.Fprintf(&sb, "Definition %s_fields : list string :=\n  [%s].\n\n", strings.TrimSuffix(sp.coqName, "_layout"), strings.Join(fnames, "; "))
		info[sp.coqName] = len(items)
	}
	writeIfChanged("Layouts.v", sb.String())
	manifest["layouts"] = info
}

func init() { extraGenerators = append(extraGenerators, genLayouts) }
