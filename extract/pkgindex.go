// pkgindex.go: the functions, methods and constants of one package directory, so that a translator can look through a helper
// a loop body was moved into, or a named constant a literal was replaced by
package main

import (
	"go/ast"
	"go/parser"
	"go/token"
	"io/ioutil"
	"path/filepath"
	"strings"
)

type pkgIndex struct {
	funcs  map[string]*ast.FuncDecl // "name" for functions, "Recv.name" for methods
	consts map[string]ast.Expr
}

var pkgIndexCache = map[string]*pkgIndex{}

func indexPackage(dir string) *pkgIndex {
	if p, ok := pkgIndexCache[dir]; ok {
		return p
	}
	idx := &pkgIndex{funcs: map[string]*ast.FuncDecl{}, consts: map[string]ast.Expr{}}
	ents, _ := ioutil.ReadDir(filepath.Join(*repo, dir))
	for _, e := range ents {
		n := e.Name()
		if e.IsDir() || !strings.HasSuffix(n, ".go") || strings.HasSuffix(n, "_test.go") || strings.HasSuffix(n, "_windows.go") {
			continue
		}
		f, err := parser.ParseFile(token.NewFileSet(), filepath.Join(*repo, dir, n), nil, 0)
		if err != nil {
			continue
		}
		for _, d := range f.Decls {
			switch x := d.(type) {
			case *ast.FuncDecl:
				if x.Body == nil {
					continue
				}
				if x.Recv != nil && len(x.Recv.List) == 1 {
					rt := x.Recv.List[0].Type
					if st, ok := rt.(*ast.StarExpr); ok {
						rt = st.X
					}
					if id, ok := rt.(*ast.Ident); ok {
						idx.funcs[id.Name+"."+x.Name.Name] = x
					}
				} else {
					idx.funcs[x.Name.Name] = x
				}
			case *ast.GenDecl:
				if x.Tok != token.CONST {
					continue
				}
				for _, sp := range x.Specs {
					vs := sp.(*ast.ValueSpec)
					for i, nm := range vs.Names {
						if i < len(vs.Values) {
							idx.consts[nm.Name] = vs.Values[i]
						}
					}
				}
			}
		}
	}
	pkgIndexCache[dir] = idx
	return idx
}

// callee resolves a call made inside method `in` (receiver type recvType, receiver variable recvVar): a package function f(...)
// or a method of the same receiver x.f(...)
func (idx *pkgIndex) callee(c *ast.CallExpr, recvType, recvVar string) *ast.FuncDecl {
	switch fn := c.Fun.(type) {
	case *ast.Ident:
		return idx.funcs[fn.Name]
	case *ast.SelectorExpr:
		if id, ok := fn.X.(*ast.Ident); ok && id.Name == recvVar && recvType != "" {
			return idx.funcs[recvType+"."+fn.Sel.Name]
		}
	}
	return nil
}

func recvOf(fd *ast.FuncDecl) (typ, name string) {
	if fd.Recv == nil || len(fd.Recv.List) != 1 {
		return "", ""
	}
	rt := fd.Recv.List[0].Type
	if st, ok := rt.(*ast.StarExpr); ok {
		rt = st.X
	}
	if id, ok := rt.(*ast.Ident); ok {
		typ = id.Name
	}
	if len(fd.Recv.List[0].Names) == 1 {
		name = fd.Recv.List[0].Names[0].Name
	}
	return
}

// durationIn evaluates a constant duration expression, looking named constants of the package up
func (idx *pkgIndex) durationIn(e ast.Expr) (int64, bool) {
	if v, ok := duration(e); ok {
		return v, true
	}
	switch x := e.(type) {
	case *ast.Ident:
		if c, ok := idx.consts[x.Name]; ok {
			return idx.durationIn(c)
		}
	case *ast.ParenExpr:
		return idx.durationIn(x.X)
	case *ast.BinaryExpr:
		a, ok1 := idx.durationIn(x.X)
		b, ok2 := idx.durationIn(x.Y)
		if ok1 && ok2 {
			switch x.Op {
			case token.MUL:
				return a * b, true
			case token.ADD:
				return a + b, true
			}
		}
	case *ast.CallExpr:
		if s, ok := x.Fun.(*ast.SelectorExpr); ok && s.Sel.Name == "Duration" && len(x.Args) == 1 {
			return idx.durationIn(x.Args[0])
		}
	}
	return 0, false
}

// stmtsThroughHelpers lists the statements of body in execution order, with the statements of package helpers that are called
// as plain statements (not `go`, not deferred) put in their place, up to the given depth
func (idx *pkgIndex) stmtsThroughHelpers(body []ast.Stmt, recvType, recvVar string, depth int) []ast.Stmt {
	var out []ast.Stmt
	for _, st := range body {
		if es, ok := st.(*ast.ExprStmt); ok && depth > 0 {
			if c, ok := es.X.(*ast.CallExpr); ok {
				if h := idx.callee(c, recvType, recvVar); h != nil {
					ht, hv := recvOf(h)
					if ht == "" {
						ht, hv = recvType, recvVar
					}
					out = append(out, idx.stmtsThroughHelpers(h.Body.List, ht, hv, depth-1)...)
					continue
				}
			}
		}
		out = append(out, st)
	}
	return out
}
