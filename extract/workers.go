// workers.go: the buffer / counting / publishing discipline of the four worker loops
// (ipfixWorker, netflowV9Worker, netflowV5Worker, sFlowWorker in vflow/*.go), as the sequence of the
// statements that touch shared state, in source order of the loop body:
//
//	Put:<full|other>  Recv  MirrorGet  MirrorCopy[:other]  MirrorSend  Decode  Count  Marshal
//	Publish:<copy|other>  Continue
//
// Emitted as Gen/Workers.v; Properties/C12.v / C13.v prove that every sequence satisfies the discipline
// the pipeline model assumes (Model/WorkerDiscipline.v).
package main

import (
	"fmt"
	"go/ast"
	"go/token"
	"regexp"
	"strings"
)

// append([]byte{}, x...): a copy of x in storage of its own
var freshCopy = regexp.MustCompile(`^append\(\[\]byte\{\},[A-Za-z_][A-Za-z0-9_]*\.\.\.\)$`)

func genWorkers() {
	ws := []struct{ name, file, fn, pool, size string }{
		{"ipfix", "vflow/ipfix.go", "ipfixWorker", "ipfixBuffer", "IPFIXUDPSize"},
		{"nf9", "vflow/netflow_v9.go", "netflowV9Worker", "netflowV9Buffer", "NetflowV9UDPSize"},
		{"nf5", "vflow/netflow_v5.go", "netflowV5Worker", "netflowV5Buffer", "NetflowV5UDPSize"},
		{"sflow", "vflow/sflow.go", "sFlowWorker", "sFlowBuffer", "SFlowUDPSize"},
	}
	var rows []string
	man := map[string]interface{}{}
	for _, w := range ws {
		_, f := parseFile(w.file)
		var evs []string
		for _, d := range f.Decls {
			fd, ok := d.(*ast.FuncDecl)
			if !ok || fd.Name.Name != w.fn || fd.Body == nil {
				continue
			}
			// the worker's main loop: the (labelled) `for { ... }` at the top level of the function
			var loop *ast.ForStmt
			for _, st := range fd.Body.List {
				if ls, ok := st.(*ast.LabeledStmt); ok {
					st = ls.Stmt
				}
				if fs, ok := st.(*ast.ForStmt); ok {
					loop = fs
				}
			}
			if loop == nil {
				problem("%s: no main loop in %s", w.file, w.fn)
				continue
			}
			// helpers of the same file that the loop calls as statements are read in place (a loop body moved into a method, a block
			// extracted into a function); a `return` of a helper that is the LAST statement of the loop body ends the iteration
			helper := func(name string) *ast.FuncDecl {
				for _, d2 := range f.Decls {
					if h, ok := d2.(*ast.FuncDecl); ok && h.Body != nil && h.Name.Name == name && h.Name.Name != w.fn {
						return h
					}
				}
				return nil
			}
			mirrorBuf := map[string]bool{"mirror.body": true}
			copies := map[string]bool{}
			var walk func(root ast.Node, retIsContinue bool, depth int)
			walk = func(root ast.Node, retIsContinue bool, depth int) {
				ast.Inspect(root, func(n ast.Node) bool {
					switch x := n.(type) {
					case *ast.FuncLit:
						return false
					case *ast.ReturnStmt:
						if retIsContinue {
							evs = append(evs, "Continue")
						}
					case *ast.ExprStmt:
						if c, ok := x.X.(*ast.CallExpr); ok && depth < 3 {
							name := ""
							switch fn := c.Fun.(type) {
							case *ast.Ident:
								name = fn.Name
							case *ast.SelectorExpr:
								if id, ok := fn.X.(*ast.Ident); ok && fd.Recv != nil && len(fd.Recv.List[0].Names) == 1 && id.Name == fd.Recv.List[0].Names[0].Name {
									name = fn.Sel.Name
								}
							}
							if h := helper(name); h != nil {
								last := root == ast.Node(loop.Body) && len(loop.Body.List) > 0 && loop.Body.List[len(loop.Body.List)-1] == ast.Stmt(x)
								walk(h.Body, last, depth+1)
								return false
							}
						}
					case *ast.BranchStmt:
						if x.Tok == token.CONTINUE {
							evs = append(evs, "Continue")
						}
					case *ast.SendStmt:
						ch := exprString(x.Chan)
						switch {
						case strings.HasSuffix(ch, "MQCh"):
							sent := strings.Join(strings.Fields(exprString(x.Value)), "")
							if freshCopy.MatchString(sent) || copies[sent] {
								evs = append(evs, "Publish:copy")
							} else {
								evs = append(evs, "Publish:other")
							}
						case strings.HasSuffix(ch, "MCh"):
							evs = append(evs, "MirrorSend")
						}
					case *ast.AssignStmt:
						if len(x.Lhs) >= 1 && len(x.Rhs) == 1 {
							lhs, rhs := exprString(x.Lhs[0]), strings.Join(strings.Fields(exprString(x.Rhs[0])), "")
							// message := append([]byte{}, b...): a fresh copy held in a local
							if freshCopy.MatchString(rhs) {
								copies[lhs] = true
							} else {
								delete(copies, lhs)
							}
							if u, ok := x.Rhs[0].(*ast.UnaryExpr); ok && u.Op == token.ARROW && strings.HasSuffix(exprString(u.X), "UDPCh") {
								evs = append(evs, "Recv")
								return false
							}
							// the buffer for the mirror copy comes from the pool (into mirror.body or into a local) ...
							if strings.Contains(rhs, w.pool+".Get()") {
								evs = append(evs, "MirrorGet")
								mirrorBuf[lhs] = true
								return false
							}
							// ... and the datagram is copied into it
							if lhs == "mirror.body" {
								good := false
								for v := range mirrorBuf {
									if rhs == "append("+v+"[:0],msg.body...)" {
										good = true
									}
								}
								if good {
									evs = append(evs, "MirrorCopy")
								} else {
									evs = append(evs, "MirrorCopy:other")
								}
							}
						}
					case *ast.CompositeLit:
						// mirror := <Proto>UDPMsg{raddr: ..., body: append(buf[:0], msg.body...)}
						if strings.HasSuffix(exprString(x.Type), "UDPMsg") {
							for _, el := range x.Elts {
								if kv, ok := el.(*ast.KeyValueExpr); ok && exprString(kv.Key) == "body" {
									v := strings.Join(strings.Fields(exprString(kv.Value)), "")
									good := false
									for b := range mirrorBuf {
										if v == "append("+b+"[:0],msg.body...)" {
											good = true
										}
									}
									if good {
										evs = append(evs, "MirrorCopy")
									} else {
										evs = append(evs, "MirrorCopy:other")
									}
								}
							}
						}
					case *ast.CallExpr:
						fn := exprString(x.Fun)
						switch {
						case strings.HasSuffix(fn, "Buffer.Put"):
							full := false
							if len(x.Args) == 1 {
								full = strings.Join(strings.Fields(exprString(x.Args[0])), "") == "msg.body[:opts."+w.size+"]" && fn == w.pool+".Put"
							}
							if full {
								evs = append(evs, "Put:full")
							} else {
								evs = append(evs, "Put:other")
							}
						case strings.HasSuffix(fn, ".Decode") || strings.HasSuffix(fn, ".SFDecode"):
							evs = append(evs, "Decode")
						case strings.HasSuffix(fn, ".JSONMarshal") || fn == "json.Marshal":
							evs = append(evs, "Marshal")
						case fn == "atomic.AddUint64" && len(x.Args) == 2 && strings.HasSuffix(exprString(x.Args[0]), "stats.DecodedCount") && exprString(x.Args[1]) == "1":
							evs = append(evs, "Count")
						}
					}
					return true
				})
			}
			walk(loop.Body, false, 0)
		}
		var q []string
		for _, e := range evs {
			q = append(q, coqStr(e))
		}
		rows = append(rows, fmt.Sprintf("(%s, [%s])", coqStr(w.name), strings.Join(q, "; ")))
		man[w.name] = evs
	}
	var b strings.Builder
	b.WriteString(header("the worker loops of vflow/{ipfix,netflow_v9,netflow_v5,sflow}.go"))
	b.WriteString("(* pipeline, the statements of its worker loop that touch shared state, in source order *)\n")
	b.WriteString("Definition workers : list (string * list string) :=\n  [" + strings.Join(rows, ";\n   ") + "].\n")
	writeIfChanged("Workers.v", b.String())
	manifest["workers"] = man
}

func init() { extraGenerators = append(extraGenerators, genWorkers) }
