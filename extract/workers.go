// workers.go: the buffer / counting / publishing discipline of the four worker loops
// (ipfixWorker, netflowV9Worker, netflowV5Worker, sFlowWorker in vflow/*.go), as the sequence of the
// statements that touch shared state, in source order of the loop body:
//   Put:<full|other>  Recv  MirrorGet  MirrorCopy[:other]  MirrorSend  Decode  Count  Marshal
//   Publish:<copy|other>  Continue
// Emitted as Gen/Workers.v; Properties/C12.v / C13.v prove that every sequence satisfies the discipline
// the pipeline model assumes (Model/WorkerDiscipline.v).
package main

import (
	"fmt"
	"go/ast"
	"go/token"
	"strings"
)

func genWorkers() {
	ws := []struct{ name, file, fn, pool, size string }{
		{"ipfix", "vflow/ipfix.go", "ipfixWorker", "ipfixBuffer", "IPFIXUDPSize"},
		{"nf9", "vflow/netflow_v9.go", "netflowV9Worker", "netflowV9Buffer", "NetflowV9UDPSize"},
		{"nf5", "vflow/netflow_v5.go", "netflowV5Worker", "netflowV5Buffer", "NetflowV5UDPSize"},
		{"sflow", "vflow/sflow.go", "sFlowWorker", "sFlowBuffer", "SFlowUDPSize"},
	}
	var rows []string
	man := map[string]interface{}{}
	for _, w := range ws {
		_, f := parseFile(w.file)
		var evs []string
		for _, d := range f.Decls {
			fd, ok := d.(*ast.FuncDecl)
			if !ok || fd.Name.Name != w.fn || fd.Body == nil {
				continue
			}
			// the worker's main loop: the (labelled) `for { ... }` at the top level of the function
			var loop *ast.ForStmt
			for _, st := range fd.Body.List {
				if ls, ok := st.(*ast.LabeledStmt); ok {
					st = ls.Stmt
				}
				if fs, ok := st.(*ast.ForStmt); ok {
					loop = fs
				}
			}
			if loop == nil {
				problem("%s: no main loop in %s", w.file, w.fn)
				continue
			}
			ast.Inspect(loop.Body, func(n ast.Node) bool {
				switch x := n.(type) {
				case *ast.FuncLit:
					return false
				case *ast.BranchStmt:
					if x.Tok == token.CONTINUE {
						evs = append(evs, "Continue")
					}
				case *ast.SendStmt:
					ch := exprString(x.Chan)
					switch {
					case strings.HasSuffix(ch, "MQCh"):
						if strings.Join(strings.Fields(exprString(x.Value)), "") == "append([]byte{},b...)" {
							evs = append(evs, "Publish:copy")
						} else {
							evs = append(evs, "Publish:other")
						}
					case strings.HasSuffix(ch, "MCh"):
						evs = append(evs, "MirrorSend")
					}
				case *ast.AssignStmt:
					if len(x.Lhs) >= 1 && len(x.Rhs) == 1 {
						lhs, rhs := exprString(x.Lhs[0]), strings.Join(strings.Fields(exprString(x.Rhs[0])), "")
						if u, ok := x.Rhs[0].(*ast.UnaryExpr); ok && u.Op == token.ARROW && strings.HasSuffix(exprString(u.X), "UDPCh") {
							evs = append(evs, "Recv")
							return false
						}
						if lhs == "mirror.body" {
							switch {
							case strings.Contains(rhs, w.pool+".Get()"):
								evs = append(evs, "MirrorGet")
								return false
							case rhs == "append(mirror.body[:0],msg.body...)":
								evs = append(evs, "MirrorCopy")
							default:
								evs = append(evs, "MirrorCopy:other")
							}
						}
					}
				case *ast.CallExpr:
					fn := exprString(x.Fun)
					switch {
					case strings.HasSuffix(fn, "Buffer.Put"):
						full := false
						if len(x.Args) == 1 {
							full = strings.Join(strings.Fields(exprString(x.Args[0])), "") == "msg.body[:opts."+w.size+"]" && fn == w.pool+".Put"
						}
						if full {
							evs = append(evs, "Put:full")
						} else {
							evs = append(evs, "Put:other")
						}
					case strings.HasSuffix(fn, ".Decode") || strings.HasSuffix(fn, ".SFDecode"):
						evs = append(evs, "Decode")
					case strings.HasSuffix(fn, ".JSONMarshal") || fn == "json.Marshal":
						evs = append(evs, "Marshal")
					case fn == "atomic.AddUint64" && len(x.Args) == 2 && strings.HasSuffix(exprString(x.Args[0]), "stats.DecodedCount") && exprString(x.Args[1]) == "1":
						evs = append(evs, "Count")
					}
				}
				return true
			})
		}
		var q []string
		for _, e := range evs {
			q = append(q, coqStr(e))
		}
		rows = append(rows, fmt.Sprintf("(%s, [%s])", coqStr(w.name), strings.Join(q, "; ")))
		man[w.name] = evs
	}
	var b strings.Builder
	b.WriteString(header("the worker loops of vflow/{ipfix,netflow_v9,netflow_v5,sflow}.go"))
	b.WriteString("(* pipeline, the statements of its worker loop that touch shared state, in source order *)\n")
	b.WriteString("Definition workers : list (string * list string) :=\n  [" + strings.Join(rows, ";\n   ") + "].\n")
	writeIfChanged("Workers.v", b.String())
	manifest["workers"] = man
}

func init() { extraGenerators = append(extraGenerators, genWorkers) }
