// timing.go: the stop sequence of each protocol pipeline, from vflow/<proto>.go:
//   run():      conn.SetReadDeadline(time.Now().Add(D))           -> read deadline D (ns)
//   shutdown(): x.stop = true; time.Sleep(G); Dump(...); close(ch) -> grace G (ns) and the ORDER of these steps
// emitted as Gen/Timing.v; Properties/C15.v proves D <= G for every pipeline and the step order the
// shutdown model assumes.
package main

import (
	"fmt"
	"go/ast"
	"go/token"
	"strconv"
	"strings"
)

// duration evaluates a constant time.Duration expression to nanoseconds
func duration(e ast.Expr) (int64, bool) {
	switch v := e.(type) {
	case *ast.BasicLit:
		if v.Kind == token.INT {
			n, err := strconv.ParseInt(v.Value, 0, 64)
			return n, err == nil
		}
		if v.Kind == token.FLOAT {
			f, err := strconv.ParseFloat(v.Value, 64)
			return int64(f), err == nil && f == float64(int64(f))
		}
	case *ast.ParenExpr:
		return duration(v.X)
	case *ast.SelectorExpr:
		if x, ok := v.X.(*ast.Ident); ok && x.Name == "time" {
			switch v.Sel.Name {
			case "Nanosecond":
				return 1, true
			case "Microsecond":
				return 1000, true
			case "Millisecond":
				return 1000000, true
			case "Second":
				return 1000000000, true
			case "Minute":
				return 60000000000, true
			}
		}
	case *ast.BinaryExpr:
		a, ok1 := duration(v.X)
		b, ok2 := duration(v.Y)
		if ok1 && ok2 {
			switch v.Op {
			case token.MUL:
				return a * b, true
			case token.ADD:
				return a + b, true
			case token.QUO:
				if b != 0 {
					return a / b, true
				}
			}
		}
	case *ast.CallExpr: // time.Duration(x)
		if s, ok := v.Fun.(*ast.SelectorExpr); ok && s.Sel.Name == "Duration" && len(v.Args) == 1 {
			return duration(v.Args[0])
		}
	}
	return 0, false
}

func isCall(e ast.Expr, pkgOrRecv, name string) (*ast.CallExpr, bool) {
	c, ok := e.(*ast.CallExpr)
	if !ok {
		return nil, false
	}
	switch f := c.Fun.(type) {
	case *ast.SelectorExpr:
		if f.Sel.Name == name {
			if pkgOrRecv == "" {
				return c, true
			}
			if x, ok := f.X.(*ast.Ident); ok && x.Name == pkgOrRecv {
				return c, true
			}
		}
	case *ast.Ident:
		if pkgOrRecv == "" && f.Name == name {
			return c, true
		}
	}
	return nil, false
}

func genTiming() {
	files := []struct{ name, file string }{{"ipfix", "vflow/ipfix.go"}, {"nf9", "vflow/netflow_v9.go"}, {"nf5", "vflow/netflow_v5.go"}, {"sflow", "vflow/sflow.go"}}
	var rows, orders []string
	man := map[string]interface{}{}
	idx := indexPackage("vflow")
	for _, pf := range files {
		_, f := parseFile(pf.file)
		deadline, grace := int64(-1), int64(-1)
		var order []string
		for _, d := range f.Decls {
			fd, ok := d.(*ast.FuncDecl)
			if !ok || fd.Recv == nil || fd.Body == nil {
				continue
			}
			if fd.Name.Name == "run" {
				rt, rv := recvOf(fd)
				scope := &ast.BlockStmt{List: idx.stmtsThroughHelpers(fd.Body.List, rt, rv, 2)}
				ast.Inspect(scope, func(n ast.Node) bool {
					if e, ok := n.(ast.Expr); ok {
						if c, ok := isCall(e, "", "SetReadDeadline"); ok && len(c.Args) == 1 {
							// time.Now().Add(D)
							if add, ok := isCall(c.Args[0], "", "Add"); ok && len(add.Args) == 1 {
								if v, ok := idx.durationIn(add.Args[0]); ok {
									if deadline >= 0 && deadline != v {
										problem("%s: several read deadlines in run()", pf.file)
									}
									if v > deadline {
										deadline = v
									}
								} else {
									problem("%s: read deadline is not a constant duration: %s", pf.file, exprString(add.Args[0]))
								}
							}
						}
					}
					return true
				})
			}
			if fd.Name.Name == "shutdown" {
				// top-level statements only: the order in which the steps are executed (a step moved into a helper that is called as a
				// plain statement is still that step; a dump started with `go`, or handed to a helper as a function value, is not)
				srt, srv := recvOf(fd)
				for _, st := range idx.stmtsThroughHelpers(fd.Body.List, srt, srv, 2) {
					switch s := st.(type) {
					case *ast.AssignStmt:
						if len(s.Lhs) == 1 && len(s.Rhs) == 1 {
							if sel, ok := s.Lhs[0].(*ast.SelectorExpr); ok && sel.Sel.Name == "stop" {
								if id, ok := s.Rhs[0].(*ast.Ident); ok && id.Name == "true" {
									order = append(order, "stop")
								}
							}
						}
					case *ast.ExprStmt:
						if c, ok := isCall(s.X, "time", "Sleep"); ok && len(c.Args) == 1 {
							if v, ok := idx.durationIn(c.Args[0]); ok {
								if grace < 0 {
									grace = 0
								}
								// only a sleep between stop and close counts towards the grace period
								if len(order) > 0 && order[len(order)-1] != "close" {
									grace += v
								}
								order = append(order, "sleep")
							} else {
								problem("%s: shutdown sleep is not a constant duration", pf.file)
							}
						}
						if _, ok := isCall(s.X, "", "close"); ok {
							order = append(order, "close")
						}
					case *ast.IfStmt:
						// if err := cache.Dump(file); err != nil { ... }
						if s.Init != nil {
							if as, ok := s.Init.(*ast.AssignStmt); ok && len(as.Rhs) == 1 {
								if _, ok := isCall(as.Rhs[0], "", "Dump"); ok {
									order = append(order, "dump")
								}
							}
						}
					}
				}
			}
		}
		if deadline < 0 {
			problem("%s: no read deadline found in run()", pf.file)
			deadline = 0
		}
		if grace < 0 {
			problem("%s: no sleep found in shutdown()", pf.file)
			grace = 0
		}
		rows = append(rows, fmt.Sprintf("(%s, %d, %d)", coqStr(pf.name), deadline, grace))
		var q []string
		for _, o := range order {
			q = append(q, coqStr(o))
		}
		orders = append(orders, fmt.Sprintf("(%s, [%s])", coqStr(pf.name), strings.Join(q, "; ")))
		man[pf.name] = map[string]interface{}{"read_deadline_ns": deadline, "grace_ns": grace, "order": order}
	}
	var b strings.Builder
	b.WriteString(header("the run() and shutdown() methods of vflow/{ipfix,netflow_v9,netflow_v5,sflow}.go"))
	b.WriteString("(* pipeline, read deadline of the receive loop (ns), sleep between `stop = true` and the close of the receive channel (ns) *)\n")
	b.WriteString("Definition timing : list (string * Z * Z) :=\n  [" + strings.Join(rows, ";\n   ") + "]%Z.\n\n")
	b.WriteString("(* the top-level steps of shutdown(), in program order *)\n")
	b.WriteString("Definition shutdown_order : list (string * list string) :=\n  [" + strings.Join(orders, ";\n   ") + "].\n")
	writeIfChanged("Timing.v", b.String())
	manifest["timing"] = man
}

func init() { extraGenerators = append(extraGenerators, genTiming) }
