// interp.go: ipfix/interpret.go -> Gen/Interp.v
//   minLen():    FieldType -> minimum octets            (switch of `case A, B: return N`, default 0)
//   Interpret(): FieldType -> the SHAPE of the value    (switch of `case A, B: return <expr>`)
// The shape is a normalised rendering of the return expression; Coq gives each known shape its meaning
// (Model/Flow.v interpret_gen) and Proofs/Tie.v proves that the hand-written `interpret` equals the
// table-driven one for every FieldType constant and every octet string.
package main

import (
	"fmt"
	"go/ast"
	"go/token"
	"strings"
)

// the value octets are written V here: `*b`, `(*b)` and a local alias of it (`data := *b`) all become V
var shapeOf = map[string]string{
	"V[0] == 1":                       "bool_eq1",
	"V[0]":                            "u8",
	"binary.BigEndian.Uint16(V)":      "u16",
	"binary.BigEndian.Uint32(V)":      "u32",
	"binary.BigEndian.Uint64(V)":      "u64",
	"int8(V[0])":                      "i8",
	"int16(binary.BigEndian.Uint16(V))": "i16",
	"int32(binary.BigEndian.Uint32(V))": "i32",
	"int64(binary.BigEndian.Uint64(V))": "i64",
	"math.Float32frombits(binary.BigEndian.Uint32(V))": "f32",
	"math.Float64frombits(binary.BigEndian.Uint64(V))": "f64",
	"net.HardwareAddr(V)":             "mac",
	"string(V)":                       "str",
	"net.IP(V)":                       "ip",
	"V":                               "raw",
}

func genInterp() {
	_, f := parseFile("ipfix/interpret.go")
	var minRows, shapeRows []string
	minDefault, shapeDefault := "0", "?"
	guardOK := false
	for _, d := range f.Decls {
		fd, ok := d.(*ast.FuncDecl)
		if !ok || fd.Body == nil {
			continue
		}
		switch fd.Name.Name {
		case "minLen":
			for _, st := range fd.Body.List {
				sw, ok := st.(*ast.SwitchStmt)
				if !ok {
					problem("interpret.go: minLen has a statement that is not the switch")
					continue
				}
				for _, c := range sw.Body.List {
					cc := c.(*ast.CaseClause)
					val := "?"
					if len(cc.Body) == 1 {
						if r, ok := cc.Body[0].(*ast.ReturnStmt); ok && len(r.Results) == 1 {
							if n, ok := intLit(r.Results[0]); ok {
								val = fmt.Sprint(n)
							}
						}
					}
					if val == "?" {
						problem("interpret.go: minLen case is not `return <int>`")
						val = "(-1)"
					}
					if cc.List == nil {
						minDefault = val
					}
					for _, e := range cc.List {
						if id, ok := e.(*ast.Ident); ok {
							minRows = append(minRows, fmt.Sprintf("(%s, %s)", coqStr(id.Name), val))
						} else {
							problem("interpret.go: minLen case label is not an identifier")
						}
					}
				}
			}
		case "Interpret":
			env := map[string]ast.Expr{"*b": ast.NewIdent("V")}
			canon := func(e ast.Expr) string { return exprString(substExpr(e, env)) }
			first := true
			for _, st := range fd.Body.List {
				// a local alias of the value octets: data := *b
				if as, ok := st.(*ast.AssignStmt); ok && first && len(as.Lhs) == 1 && len(as.Rhs) == 1 && as.Tok == token.DEFINE && canon(as.Rhs[0]) == "V" {
					if id, ok := as.Lhs[0].(*ast.Ident); ok {
						env[id.Name] = ast.NewIdent("V")
						continue
					}
				}
				switch s := st.(type) {
				case *ast.IfStmt:
					// if len(*b) < t.minLen() { return *b }   (before anything else looks at the octets)
					if first && canon(s.Cond) == "len(V) < t.minLen()" && len(s.Body.List) == 1 && s.Else == nil {
						if r, ok := s.Body.List[0].(*ast.ReturnStmt); ok && len(r.Results) == 1 && canon(r.Results[0]) == "V" {
							guardOK = true
						}
					}
					first = false
				case *ast.SwitchStmt:
					if exprString(s.Tag) != "t" {
						problem("interpret.go: Interpret switches on %s", exprString(s.Tag))
					}
					for _, c := range s.Body.List {
						cc := c.(*ast.CaseClause)
						shape := "?"
						if len(cc.Body) == 1 {
							if r, ok := cc.Body[0].(*ast.ReturnStmt); ok && len(r.Results) == 1 {
								src := canon(r.Results[0])
								if sh, ok := shapeOf[src]; ok {
									shape = sh
								} else {
									shape = "opaque:" + src
								}
							}
						}
						if cc.List == nil {
							shapeDefault = shape
						}
						for _, e := range cc.List {
							if id, ok := e.(*ast.Ident); ok {
								shapeRows = append(shapeRows, fmt.Sprintf("(%s, %s)", coqStr(id.Name), coqStr(shape)))
							}
						}
					}
				case *ast.ReturnStmt:
					if len(s.Results) == 1 {
						src := canon(s.Results[0])
						if sh, ok := shapeOf[src]; ok {
							shapeDefault = sh
						} else {
							shapeDefault = "opaque:" + src
						}
					}
				default:
					problem("interpret.go: unexpected statement in Interpret")
				}
			}
		}
	}
	if !guardOK {
		problem("interpret.go: Interpret does not start with `if len(*b) < t.minLen() { return *b }`")
	}
	_ = token.ADD
	var b strings.Builder
	b.WriteString(header("ipfix/interpret.go (minLen, Interpret)"))
	b.WriteString("(* FieldType constant -> minimum number of octets; default for the others *)\n")
	b.WriteString("Definition min_len_table : list (string * Z) :=\n  [" + strings.Join(minRows, "; ") + "]%Z.\n")
	b.WriteString("Definition min_len_default : Z := " + minDefault + "%Z.\n\n")
	b.WriteString("(* FieldType constant -> shape of the value Interpret returns; default for the others *)\n")
	b.WriteString("Definition shape_table : list (string * string) :=\n  [" + strings.Join(shapeRows, "; ") + "].\n")
	b.WriteString("Definition shape_default : string := " + coqStr(shapeDefault) + ".\n")
	b.WriteString(fmt.Sprintf("Definition length_guard_first : bool := %v.\n", guardOK))
	writeIfChanged("Interp.v", b.String())
	manifest["interp"] = map[string]interface{}{"min_len_cases": len(minRows), "shape_cases": len(shapeRows), "guard": guardOK}
}

func init() { extraGenerators = append(extraGenerators, genInterp) }
