package main

import (
	"fmt"
	"go/ast"
	"go/token"
	"strings"
)

// Lock/unlock/map-access event skeleton of every template-cache function, in execution order
// (a deferred unlock is placed at the function's end).  Events on "the shard of the key" are
// PLock/PUnlock/PRLock/PRUnlock/PRead/PWrite; `for _, shard := range m { body }` is PAll [body];
// an access to ALL shard maps at once (json.Marshal of the whole cache, len() of every map) without
// any lock of its own is PReadAll.

var lockFuncs = []struct{ coq, file, recv, fn string }{
	{"ipfix_insert", "ipfix/memcache.go", "MemCache", "insert"},
	{"ipfix_retrieve", "ipfix/memcache.go", "MemCache", "retrieve"},
	{"ipfix_allsetids", "ipfix/memcache.go", "MemCache", "allSetIds"},
	{"ipfix_dump", "ipfix/memcache.go", "MemCache", "Dump"},
	{"ipfix_rpc_get", "ipfix/memcache_rpc.go", "IRPC", "Get"},
	{"nf9_insert", "netflow/v9/memcache.go", "MemCache", "insert"},
	{"nf9_retrieve", "netflow/v9/memcache.go", "MemCache", "retrieve"},
	{"nf9_dump", "netflow/v9/memcache.go", "MemCache", "Dump"},
}

type lockWalker struct {
	events   []string
	deferred []string
	shardVar map[string]bool // identifiers bound to a *TemplatesShard
	cacheVar string          // the receiver (the whole cache)
	calls    map[string][]string
	file     *ast.File // for inlining helper methods of the same receiver type (rLockAll(), ...)
	recv     string
	depth    int
}

// helperEvents: the events of a method <recv>.<name> of the same file that is not one of the tabulated cache functions,
// walked on the fly so that a refactoring into small helpers does not hide lock operations or map accesses
func (w *lockWalker) helperEvents(name string) ([]string, bool) {
	if w.file == nil || w.depth > 3 || name == "getShard" {
		return nil, false
	}
	for _, d := range w.file.Decls {
		fd, ok := d.(*ast.FuncDecl)
		if !ok || fd.Name.Name != name || fd.Recv == nil || fd.Body == nil {
			continue
		}
		rt := fd.Recv.List[0].Type
		if st, ok := rt.(*ast.StarExpr); ok {
			rt = st.X
		}
		if id, ok := rt.(*ast.Ident); !ok || id.Name != w.recv {
			continue
		}
		sub := &lockWalker{shardVar: map[string]bool{}, calls: w.calls, file: w.file, recv: w.recv, depth: w.depth + 1}
		if len(fd.Recv.List[0].Names) > 0 {
			sub.cacheVar = fd.Recv.List[0].Names[0].Name
		}
		sub.stmts(fd.Body.List)
		return append(sub.events, sub.deferred...), true
	}
	return nil, false
}

func (w *lockWalker) shardExpr(e ast.Expr) bool {
	id, ok := e.(*ast.Ident)
	return ok && w.shardVar[id.Name]
}

// map access shard.Templates[...] / range shard.Templates / len(shard.Templates)
func (w *lockWalker) templatesOf(e ast.Expr) bool {
	se, ok := e.(*ast.SelectorExpr)
	return ok && se.Sel.Name == "Templates" && w.shardExpr(se.X)
}

func (w *lockWalker) expr(e ast.Expr, write bool) {
	ast.Inspect(e, func(n ast.Node) bool {
		switch x := n.(type) {
		case *ast.IndexExpr:
			if w.templatesOf(x.X) {
				if write {
					w.events = append(w.events, "PWrite")
				} else {
					w.events = append(w.events, "PRead")
				}
				return false
			}
		case *ast.CallExpr:
			if se, ok := x.Fun.(*ast.SelectorExpr); ok {
				if w.shardExpr(se.X) {
					switch se.Sel.Name {
					case "Lock":
						w.events = append(w.events, "PLock")
					case "Unlock":
						w.events = append(w.events, "PUnlock")
					case "RLock":
						w.events = append(w.events, "PRLock")
					case "RUnlock":
						w.events = append(w.events, "PRUnlock")
					}
					return false
				}
				// a call into another cache function: its events are inlined (retrieve via IRPC.Get)
				if ev, ok := w.calls[se.Sel.Name]; ok {
					w.events = append(w.events, ev...)
					return true
				}
				// a helper method of the cache itself
				if id, ok := se.X.(*ast.Ident); ok && id.Name == w.cacheVar && w.cacheVar != "" {
					if ev, ok := w.helperEvents(se.Sel.Name); ok {
						w.events = append(w.events, ev...)
						return true
					}
				}
			}
			if id, ok := x.Fun.(*ast.Ident); ok && id.Name == "len" && len(x.Args) == 1 && w.templatesOf(x.Args[0]) {
				w.events = append(w.events, "PRead")
				return false
			}
			if id, ok := x.Fun.(*ast.Ident); ok && id.Name == "delete" && len(x.Args) == 2 && w.templatesOf(x.Args[0]) {
				w.expr(x.Args[1], false)
				w.events = append(w.events, "PWrite")
				return false
			}
			// json.Marshal(memCacheDisk{m, ...}) / anything that is handed the whole cache: reads every shard map
			if exprString(x.Fun) == "json.Marshal" {
				for _, a := range x.Args {
					found := false
					ast.Inspect(a, func(n ast.Node) bool {
						if id, ok := n.(*ast.Ident); ok && id.Name == w.cacheVar {
							found = true
						}
						return true
					})
					if found {
						w.events = append(w.events, "PReadAll")
					}
				}
			}
		}
		return true
	})
}

func (w *lockWalker) stmts(list []ast.Stmt) {
	for _, st := range list {
		switch s := st.(type) {
		case *ast.DeferStmt:
			sub := &lockWalker{shardVar: w.shardVar, cacheVar: w.cacheVar, calls: w.calls, file: w.file, recv: w.recv, depth: w.depth}
			sub.expr(s.Call, false)
			w.deferred = append(sub.events, w.deferred...)
		case *ast.AssignStmt:
			// shard, key := m.getShard(...)
			if len(s.Rhs) == 1 {
				if call, ok := s.Rhs[0].(*ast.CallExpr); ok {
					if se, ok := call.Fun.(*ast.SelectorExpr); ok && se.Sel.Name == "getShard" && len(s.Lhs) >= 1 {
						w.shardVar[exprString(s.Lhs[0])] = true
						continue
					}
				}
			}
			for _, l := range s.Lhs {
				if ix, ok := l.(*ast.IndexExpr); ok && w.templatesOf(ix.X) {
					for _, r := range s.Rhs {
						w.expr(r, false)
					}
					w.events = append(w.events, "PWrite")
					goto next
				}
			}
			for _, r := range s.Rhs {
				w.expr(r, false)
			}
		case *ast.RangeStmt:
			// for _, shard := range m { ... }  -> PAll [body]
			if id, ok := s.X.(*ast.Ident); ok && id.Name == w.cacheVar && s.Value != nil {
				sub := &lockWalker{shardVar: map[string]bool{exprString(s.Value): true}, cacheVar: w.cacheVar, calls: w.calls, file: w.file, recv: w.recv, depth: w.depth}
				for k := range w.shardVar {
					sub.shardVar[k] = true
				}
				sub.stmts(s.Body.List)
				w.events = append(w.events, "PAll ["+strings.Join(append(sub.events, sub.deferred...), "; ")+"]")
				continue
			}
			// for _, set := range shard.Templates { ... }  -> a read of that shard's map
			if w.templatesOf(s.X) {
				w.events = append(w.events, "PRead")
			}
			w.stmts(s.Body.List)
		case *ast.ExprStmt:
			w.expr(s.X, false)
		case *ast.IfStmt:
			if s.Init != nil {
				w.stmts([]ast.Stmt{s.Init})
			}
			w.expr(s.Cond, false)
			// error-return branches do not touch the cache; walk them anyway
			w.stmts(s.Body.List)
		case *ast.ReturnStmt:
			for _, r := range s.Results {
				w.expr(r, false)
			}
		case *ast.DeclStmt:
		default:
			ast.Inspect(s, func(n ast.Node) bool {
				if e, ok := n.(ast.Expr); ok {
					w.expr(e, false)
					return false
				}
				return true
			})
		}
	next:
	}
}

func genLocks() {
	var sb strings.Builder
	sb.WriteString(header("the lock / map-access skeleton of the template-cache functions (ipfix/memcache.go, netflow/v9/memcache.go, ipfix/memcache_rpc.go)"))
	sb.WriteString("From VF Require Import Model.LockProto.\n\n")
	files := map[string]*ast.File{}
	calls := map[string][]string{}
	info := map[string]interface{}{}
	for _, lf := range lockFuncs {
		f, ok := files[lf.file]
		if !ok {
			_, f = parseFile(lf.file)
			files[lf.file] = f
		}
		var events []string
		found := false
		for _, d := range f.Decls {
			fd, ok := d.(*ast.FuncDecl)
			if !ok || fd.Name.Name != lf.fn || fd.Recv == nil {
				continue
			}
			rt := fd.Recv.List[0].Type
			if st, ok := rt.(*ast.StarExpr); ok {
				rt = st.X
			}
			if id, ok := rt.(*ast.Ident); !ok || id.Name != lf.recv {
				continue
			}
			found = true
			w := &lockWalker{shardVar: map[string]bool{}, calls: calls, file: f, recv: lf.recv}
			if len(fd.Recv.List[0].Names) > 0 {
				w.cacheVar = fd.Recv.List[0].Names[0].Name
			}
			w.stmts(fd.Body.List)
			events = append(w.events, w.deferred...)
		}
		if !found {
			problem("locks %s: func (%s).%s not found in %s", lf.coq, lf.recv, lf.fn, lf.file)
			events = []string{"PReadAll"} // unknown: assume the worst
		}
		if lf.recv == "MemCache" && strings.HasPrefix(lf.coq, "ipfix_") {
			calls[lf.fn] = events
		}
		fmt.Fprintf(&sb, "Definition %s : list pev := [%s].\n", lf.coq, strings.Join(events, "; "))
		info[lf.coq] = events
	}
	// every OTHER method of the cache types in these files that locks a shard or touches a shard map and is not merely a helper
	// of another method of the same file (helpers are inlined where they are called): a function added later (remove, withdraw,
	// expire, ...) is held to the same protocol
	tab := map[string]bool{}
	for _, lf := range lockFuncs {
		tab[lf.file+":"+lf.fn] = true
	}
	var extraNames []string
	for _, file := range []string{"ipfix/memcache.go", "ipfix/memcache_rpc.go", "netflow/v9/memcache.go"} {
		f, ok := files[file]
		if !ok {
			_, f = parseFile(file)
			files[file] = f
		}
		called := map[string]bool{}
		for _, d := range f.Decls {
			fd, ok := d.(*ast.FuncDecl)
			if !ok || fd.Body == nil {
				continue
			}
			ast.Inspect(fd.Body, func(n ast.Node) bool {
				if c, ok := n.(*ast.CallExpr); ok {
					if se, ok := c.Fun.(*ast.SelectorExpr); ok && se.Sel.Name != fd.Name.Name {
						called[se.Sel.Name] = true
					}
				}
				return true
			})
		}
		for _, d := range f.Decls {
			fd, ok := d.(*ast.FuncDecl)
			if !ok || fd.Body == nil || fd.Recv == nil || tab[file+":"+fd.Name.Name] || called[fd.Name.Name] || fd.Name.Name == "getShard" {
				continue
			}
			rt := fd.Recv.List[0].Type
			if st, ok := rt.(*ast.StarExpr); ok {
				rt = st.X
			}
			id, ok := rt.(*ast.Ident)
			if !ok {
				continue
			}
			w := &lockWalker{shardVar: map[string]bool{}, calls: calls, file: f, recv: id.Name}
			if strings.HasPrefix(file, "netflow/") {
				w.calls = map[string][]string{}
			}
			if len(fd.Recv.List[0].Names) > 0 {
				w.cacheVar = fd.Recv.List[0].Names[0].Name
			}
			w.stmts(fd.Body.List)
			events := append(w.events, w.deferred...)
			if len(events) == 0 {
				continue
			}
			pkg := "ipfix"
			if strings.HasPrefix(file, "netflow/") {
				pkg = "nf9"
			}
			name := fmt.Sprintf("extra_%s_%s_%s", pkg, strings.ToLower(id.Name), fd.Name.Name)
			fmt.Fprintf(&sb, "Definition %s : list pev := [%s].\n", name, strings.Join(events, "; "))
			info[name] = events
			extraNames = append(extraNames, name)
		}
	}
	// the state a shard consists of: the protocol speaks about the map and the mutex only; any further field is shared state the
	// model knows nothing about (a lock-free lookaside, a counter ...)
	var fieldRows []string
	for _, file := range []string{"ipfix/memcache.go", "netflow/v9/memcache.go"} {
		var fields []string
		for _, d := range files[file].Decls {
			gd, ok := d.(*ast.GenDecl)
			if !ok {
				continue
			}
			for _, sp := range gd.Specs {
				ts, ok := sp.(*ast.TypeSpec)
				if !ok || ts.Name.Name != "TemplatesShard" {
					continue
				}
				if st, ok := ts.Type.(*ast.StructType); ok {
					for _, fl := range st.Fields.List {
						if len(fl.Names) == 0 {
							fields = append(fields, exprString(fl.Type))
						}
						for _, n := range fl.Names {
							fields = append(fields, n.Name)
						}
					}
				}
			}
		}
		var q []string
		for _, x := range fields {
			q = append(q, coqStr(x))
		}
		fieldRows = append(fieldRows, fmt.Sprintf("(%s, [%s])", coqStr(file), strings.Join(q, "; ")))
		info["shard_fields:"+file] = fields
	}
	sb.WriteString("\nDefinition shard_fields : list (string * list string) :=\n  [" + strings.Join(fieldRows, ";\n   ") + "].\n")
	sb.WriteString("\nDefinition cache_functions : list (string * list pev) :=\n  [")
	var names []string
	for _, lf := range lockFuncs {
		names = append(names, fmt.Sprintf("(%s, %s)", coqStr(lf.coq), lf.coq))
	}
	for _, n := range extraNames {
		names = append(names, fmt.Sprintf("(%s, %s)", coqStr(n), n))
	}
	sb.WriteString(strings.Join(names, ";\n   ") + "].\n")
	writeIfChanged("Locks.v", sb.String())
	manifest["locks"] = info
}

func init() { extraGenerators = append(extraGenerators, genLocks) }

var _ = token.ADD
