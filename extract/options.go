package main

import (
	"fmt"
	"go/ast"
	"go/token"
	"reflect"
	"strings"
)

// vflow/options.go: the settings table (Options struct: field, yaml tag, kind), the built-in
// defaults (NewOptions literal) and the ORDER OF THE STAGES in flagSet: registrations, getEnv,
// loadCfg, flag.Parse — with, for each registration, where its default value comes from.

func genOptions() {
	_, f := parseFile("vflow/options.go")
	var sb strings.Builder
	sb.WriteString(header("vflow/options.go (Options struct tags, NewOptions literal, flagSet body)"))
	sb.WriteString("From VF Require Import Model.Options.\n\n")

	// 1. struct fields
	type setting struct{ field, tag, kind string }
	var settings []setting
	for _, d := range f.Decls {
		gd, ok := d.(*ast.GenDecl)
		if !ok || gd.Tok != token.TYPE {
			continue
		}
		for _, s := range gd.Specs {
			ts := s.(*ast.TypeSpec)
			st, ok := ts.Type.(*ast.StructType)
			if !ok || ts.Name.Name != "Options" {
				continue
			}
			for _, fl := range st.Fields.List {
				tag := ""
				if fl.Tag != nil {
					tag = reflect.StructTag(strings.Trim(fl.Tag.Value, "`")).Get("yaml")
				}
				kind := exprString(fl.Type)
				for _, n := range fl.Names {
					settings = append(settings, setting{n.Name, tag, kind})
				}
			}
		}
	}
	sb.WriteString("(* Options struct: field, yaml tag, Go type *)\nDefinition settings : list (string * string * string) :=\n  [")
	var ss []string
	for _, s := range settings {
		ss = append(ss, fmt.Sprintf("(%s, %s, %s)", coqStr(s.field), coqStr(s.tag), coqStr(s.kind)))
	}
	sb.WriteString(strings.Join(ss, ";\n   ") + "].\n\n")

	// 2. NewOptions literal: field -> source text of the default
	var defs []string
	for _, d := range f.Decls {
		fd, ok := d.(*ast.FuncDecl)
		if !ok || fd.Name.Name != "NewOptions" {
			continue
		}
		ast.Inspect(fd, func(n ast.Node) bool {
			cl, ok := n.(*ast.CompositeLit)
			if !ok || exprString(cl.Type) != "Options" {
				return true
			}
			for _, e := range cl.Elts {
				if kv, ok := e.(*ast.KeyValueExpr); ok {
					v := exprString(kv.Value)
					if s, ok := strLit(kv.Value); ok {
						v = s
					}
					defs = append(defs, fmt.Sprintf("(%s, %s)", coqStr(exprString(kv.Key)), coqStr(v)))
				}
			}
			return false
		})
	}
	sb.WriteString("(* NewOptions(): field, default (source text; string literals unquoted) *)\nDefinition defaults : list (string * string) :=\n  [" + strings.Join(defs, ";\n   ") + "].\n\n")

	// 3. flagSet body, statement by statement
	var stages []string
	for _, d := range f.Decls {
		fd, ok := d.(*ast.FuncDecl)
		if !ok || fd.Name.Name != "flagSet" {
			continue
		}
		recv := fd.Recv.List[0].Names[0].Name
		for _, st := range fd.Body.List {
			es, ok := st.(*ast.ExprStmt)
			if !ok {
				if _, ok := st.(*ast.DeclStmt); ok {
					continue
				}
				if as, ok := st.(*ast.AssignStmt); ok && exprString(as.Lhs[0]) == "flag.Usage" {
					continue
				}
				stages = append(stages, "StOpaque "+coqStr(exprString(st)))
				problem("flagSet: unrecognised statement %s", exprString(st))
				continue
			}
			call, ok := es.X.(*ast.CallExpr)
			if !ok {
				stages = append(stages, "StOpaque "+coqStr(exprString(st)))
				continue
			}
			fun := exprString(call.Fun)
			switch {
			case fun == recv+".getEnv":
				stages = append(stages, "StEnv")
			case fun == recv+".loadCfg":
				stages = append(stages, "StFile")
			case fun == "flag.Parse":
				stages = append(stages, "StParse")
			case (fun == "flag.IntVar" || fun == "flag.StringVar" || fun == "flag.BoolVar") && len(call.Args) == 4:
				target := exprString(call.Args[0])
				name, _ := strLit(call.Args[1])
				if strings.HasPrefix(target, "&"+recv+".") {
					field := strings.TrimPrefix(target, "&"+recv+".")
					def := exprString(call.Args[2])
					var d string
					if def == recv+"."+field {
						d = "DCurrent"
					} else if strings.HasPrefix(def, recv+".") {
						d = "DField " + coqStr(strings.TrimPrefix(def, recv+"."))
					} else {
						d = "DConst " + coqStr(def)
					}
					stages = append(stages, fmt.Sprintf("StReg %s %s (%s)", coqStr(field), coqStr(name), d))
				} else {
					stages = append(stages, "StRegOther "+coqStr(name))
				}
			case fun == "flag.Var" && len(call.Args) == 3:
				name, _ := strLit(call.Args[1])
				stages = append(stages, "StRegOther "+coqStr(name))
			default:
				stages = append(stages, "StOpaque "+coqStr(exprString(st)))
				problem("flagSet: unrecognised call %s", fun)
			}
		}
	}
	sb.WriteString("(* flagSet(): the stages in source order *)\nDefinition stages : list stage :=\n  [" + strings.Join(stages, ";\n   ") + "].\n")
	writeIfChanged("Options.v", sb.String())
	manifest["options"] = map[string]interface{}{"settings": len(settings), "defaults": len(defs), "stages": len(stages)}
}

func init() { extraGenerators = append(extraGenerators, genOptions) }
