package main

import (
	"fmt"
	"go/ast"
	"go/token"
	"reflect"
	"strings"
)

// vflow/options.go: the settings table (Options struct: field, yaml tag, kind), the built-in
// defaults (NewOptions literal) and the ORDER OF THE STAGES in flagSet: registrations, getEnv,
// loadCfg, flag.Parse — with, for each registration, where its default value comes from.

// structNamed finds `type name struct{...}` in a file
func structNamed(f *ast.File, name string) *ast.StructType {
	for _, d := range f.Decls {
		gd, ok := d.(*ast.GenDecl)
		if !ok || gd.Tok != token.TYPE {
			continue
		}
		for _, s := range gd.Specs {
			if ts := s.(*ast.TypeSpec); ts.Name.Name == name {
				if st, ok := ts.Type.(*ast.StructType); ok {
					return st
				}
			}
		}
	}
	return nil
}

func genOptions() {
	_, f := parseFile("vflow/options.go")
	var sb strings.Builder
	sb.WriteString(header("vflow/options.go (Options struct tags, NewOptions literal, flagSet body)"))
	sb.WriteString("From VF Require Import Model.Options.\n\n")

	// 1. struct fields
	type setting struct{ field, tag, kind string }
	var settings []setting
	embedded := map[string]bool{}
	for _, d := range f.Decls {
		gd, ok := d.(*ast.GenDecl)
		if !ok || gd.Tok != token.TYPE {
			continue
		}
		for _, s := range gd.Specs {
			ts := s.(*ast.TypeSpec)
			st, ok := ts.Type.(*ast.StructType)
			if !ok || ts.Name.Name != "Options" {
				continue
			}
			var addFields func(st *ast.StructType, depth int)
			addFields = func(st *ast.StructType, depth int) {
				for _, fl := range st.Fields.List {
					tag := ""
					if fl.Tag != nil {
						tag = reflect.StructTag(strings.Trim(fl.Tag.Value, "`")).Get("yaml")
					}
					kind := exprString(fl.Type)
					// an embedded struct whose keys stay at the top level of the file (yaml ",inline"): its fields are promoted, so
					// every opts.X and every key reads as before; they are settings like the others
					if len(fl.Names) == 0 && strings.Contains(tag, "inline") && depth < 3 {
						if est := structNamed(f, strings.TrimPrefix(kind, "*")); est != nil {
							embedded[strings.TrimPrefix(kind, "*")] = true
							addFields(est, depth+1)
							continue
						}
					}
					for _, n := range fl.Names {
						settings = append(settings, setting{n.Name, tag, kind})
					}
				}
			}
			addFields(st, 0)
		}
	}
	sb.WriteString("(* Options struct: field, yaml tag, Go type *)\nDefinition settings : list (string * string * string) :=\n  [")
	var ss []string
	for _, s := range settings {
		ss = append(ss, fmt.Sprintf("(%s, %s, %s)", coqStr(s.field), coqStr(s.tag), coqStr(s.kind)))
	}
	sb.WriteString(strings.Join(ss, ";\n   ") + "].\n\n")

	// 2. NewOptions literal: field -> source text of the default
	var defs []string
	for _, d := range f.Decls {
		fd, ok := d.(*ast.FuncDecl)
		if !ok || fd.Name.Name != "NewOptions" {
			continue
		}
		ast.Inspect(fd, func(n ast.Node) bool {
			cl, ok := n.(*ast.CompositeLit)
			if !ok || exprString(cl.Type) != "Options" {
				return true
			}
			for _, e := range cl.Elts {
				if kv, ok := e.(*ast.KeyValueExpr); ok {
					if in, ok := kv.Value.(*ast.CompositeLit); ok && embedded[exprString(in.Type)] {
						// the defaults of an embedded group of settings
						for _, e2 := range in.Elts {
							if kv2, ok := e2.(*ast.KeyValueExpr); ok {
								v := exprString(kv2.Value)
								if s, ok := strLit(kv2.Value); ok {
									v = s
								}
								defs = append(defs, fmt.Sprintf("(%s, %s)", coqStr(exprString(kv2.Key)), coqStr(v)))
							}
						}
						continue
					}
					v := exprString(kv.Value)
					if s, ok := strLit(kv.Value); ok {
						v = s
					}
					defs = append(defs, fmt.Sprintf("(%s, %s)", coqStr(exprString(kv.Key)), coqStr(v)))
				}
			}
			return false
		})
	}
	sb.WriteString("(* NewOptions(): field, default (source text; string literals unquoted) *)\nDefinition defaults : list (string * string) :=\n  [" + strings.Join(defs, ";\n   ") + "].\n\n")

	// 3. flagSet body, statement by statement
	var stages []string
	for _, d := range f.Decls {
		fd, ok := d.(*ast.FuncDecl)
		if !ok || fd.Name.Name != "flagSet" {
			continue
		}
		recv := fd.Recv.List[0].Names[0].Name
		// names that stand for the default flag set: the package itself (flag.IntVar) and locals / parameters bound to
		// flag.CommandLine (fs := flag.CommandLine; fs.IntVar; a helper method called with fs)
		var walk func(list []ast.Stmt, recv string, sets map[string]bool, depth int)
		walk = func(list []ast.Stmt, recv string, sets map[string]bool, depth int) {
			for _, st := range list {
				es, ok := st.(*ast.ExprStmt)
				if !ok {
					if ds, ok := st.(*ast.DeclStmt); ok {
						// var fs = flag.CommandLine
						if gd, ok := ds.Decl.(*ast.GenDecl); ok {
							for _, sp := range gd.Specs {
								if vs, ok := sp.(*ast.ValueSpec); ok {
									for i, n := range vs.Names {
										if i < len(vs.Values) && exprString(vs.Values[i]) == "flag.CommandLine" {
											sets[n.Name] = true
										}
									}
								}
							}
						}
						continue
					}
					if as, ok := st.(*ast.AssignStmt); ok && len(as.Lhs) == 1 && len(as.Rhs) == 1 {
						l, r := exprString(as.Lhs[0]), exprString(as.Rhs[0])
						if l == "flag.Usage" || strings.HasSuffix(l, ".Usage") && sets[strings.TrimSuffix(l, ".Usage")] {
							continue
						}
						if r == "flag.CommandLine" {
							sets[l] = true
							continue
						}
					}
					stages = append(stages, "StOpaque "+coqStr(exprString(st)))
					problem("flagSet: unrecognised statement %s", exprString(st))
					continue
				}
				call, ok := es.X.(*ast.CallExpr)
				if !ok {
					stages = append(stages, "StOpaque "+coqStr(exprString(st)))
					continue
				}
				fun := exprString(call.Fun)
				// fs.IntVar(...) with fs the default flag set is flag.IntVar(...)
				if se, ok := call.Fun.(*ast.SelectorExpr); ok && sets[exprString(se.X)] {
					fun = "flag." + se.Sel.Name
				}
				switch {
				case fun == recv+".getEnv":
					stages = append(stages, "StEnv")
				case fun == recv+".loadCfg":
					stages = append(stages, "StFile")
				case fun == "flag.Parse" && (len(call.Args) == 0 || exprString(call.Args[0]) == "os.Args[1:]"):
					stages = append(stages, "StParse")
				case (fun == "flag.IntVar" || fun == "flag.StringVar" || fun == "flag.BoolVar") && len(call.Args) == 4:
					target := exprString(call.Args[0])
					name, _ := strLit(call.Args[1])
					if strings.HasPrefix(target, "&"+recv+".") {
						field := strings.TrimPrefix(target, "&"+recv+".")
						def := exprString(call.Args[2])
						var d string
						if def == recv+"."+field {
							d = "DCurrent"
						} else if strings.HasPrefix(def, recv+".") {
							d = "DField " + coqStr(strings.TrimPrefix(def, recv+"."))
						} else {
							d = "DConst " + coqStr(def)
						}
						stages = append(stages, fmt.Sprintf("StReg %s %s (%s)", coqStr(field), coqStr(name), d))
					} else {
						stages = append(stages, "StRegOther "+coqStr(name))
					}
				case fun == "flag.Var" && len(call.Args) == 3:
					name, _ := strLit(call.Args[1])
					stages = append(stages, "StRegOther "+coqStr(name))
				default:
					// a method of the options themselves that registers a section of the flags: read in place
					if se, ok := call.Fun.(*ast.SelectorExpr); ok && exprString(se.X) == recv && depth < 3 {
						var h *ast.FuncDecl
						for _, d2 := range f.Decls {
							if x, ok := d2.(*ast.FuncDecl); ok && x.Recv != nil && x.Body != nil && x.Name.Name == se.Sel.Name && x.Name.Name != "flagSet" {
								h = x
							}
						}
						if h != nil && len(h.Recv.List[0].Names) == 1 {
							sets2 := map[string]bool{}
							i := 0
							if h.Type.Params != nil {
								for _, fl := range h.Type.Params.List {
									for _, n := range fl.Names {
										if i < len(call.Args) && sets[exprString(call.Args[i])] || i < len(call.Args) && exprString(call.Args[i]) == "flag.CommandLine" {
											sets2[n.Name] = true
										}
										i++
									}
								}
							}
							walk(h.Body.List, h.Recv.List[0].Names[0].Name, sets2, depth+1)
							continue
						}
					}
					stages = append(stages, "StOpaque "+coqStr(exprString(st)))
					problem("flagSet: unrecognised call %s", fun)
				}
			}
		}
		walk(fd.Body.List, recv, map[string]bool{}, 0)
	}
	sb.WriteString("(* flagSet(): the stages in source order *)\nDefinition stages : list stage :=\n  [" + strings.Join(stages, ";\n   ") + "].\n")
	writeIfChanged("Options.v", sb.String())
	manifest["options"] = map[string]interface{}{"settings": len(settings), "defaults": len(defs), "stages": len(stages)}
}

func init() { extraGenerators = append(extraGenerators, genOptions) }
