package main

import (
	"fmt"
	"go/ast"
	"go/token"
	"io/ioutil"
	"path/filepath"
	"sort"
	"strings"

	"gopkg.in/yaml.v2"
)

// genInfoModel: ipfix/rfc5102_model.go (const iota block, FieldTypes literal, InfoModel literal)
// and scripts/ipfix.elements (read with the repo's own yaml.v2 into the type LoadExtElements uses).
func genInfoModel() {
	_, f := parseFile("ipfix/rfc5102_model.go")
	var sb strings.Builder
	sb.WriteString(header("ipfix/rfc5102_model.go and scripts/ipfix.elements"))
	sb.WriteString("From VF Require Import Model.InfoModelDefs.\n\n")

	// 1. const ( Unknown FieldType = iota ; Uint8 ; ... )
	var consts []string
	for _, d := range f.Decls {
		gd, ok := d.(*ast.GenDecl)
		if !ok || gd.Tok != token.CONST {
			continue
		}
		isFT := false
		for i, s := range gd.Specs {
			vs := s.(*ast.ValueSpec)
			if i == 0 {
				if id, ok := vs.Type.(*ast.Ident); ok && id.Name == "FieldType" && len(vs.Values) == 1 {
					if v, ok := vs.Values[0].(*ast.Ident); ok && v.Name == "iota" {
						isFT = true
					}
				}
			} else if isFT && (vs.Type != nil || len(vs.Values) != 0) {
				problem("FieldType const block: spec %d is not a plain iota continuation", i)
			}
			if isFT {
				for _, n := range vs.Names {
					consts = append(consts, n.Name)
				}
			}
		}
	}
	sb.WriteString("(* const ( Unknown FieldType = iota ... ): name, value *)\nDefinition type_consts : list (string * Z) := [\n")
	for i, c := range consts {
		sep := ";"
		if i == len(consts)-1 {
			sep = ""
		}
		fmt.Fprintf(&sb, "  (%s, %d)%s\n", coqStr(c), i, sep)
	}
	sb.WriteString("]%Z.\n\n")
	constVal := map[string]int{}
	for i, c := range consts {
		constVal[c] = i
	}

	// 2. var FieldTypes = map[string]FieldType{ "unsigned8": Uint8, ... }
	type ft struct {
		name string
		c    string
	}
	var fts []ft
	var im *ast.CompositeLit
	for _, d := range f.Decls {
		gd, ok := d.(*ast.GenDecl)
		if !ok || gd.Tok != token.VAR {
			continue
		}
		for _, s := range gd.Specs {
			vs := s.(*ast.ValueSpec)
			if len(vs.Names) != 1 || len(vs.Values) != 1 {
				continue
			}
			cl, ok := vs.Values[0].(*ast.CompositeLit)
			if !ok {
				continue
			}
			switch vs.Names[0].Name {
			case "FieldTypes":
				for _, e := range cl.Elts {
					kv := e.(*ast.KeyValueExpr)
					k, ok1 := strLit(kv.Key)
					v, ok2 := kv.Value.(*ast.Ident)
					if !ok1 || !ok2 {
						problem("FieldTypes: unrecognised entry")
						continue
					}
					fts = append(fts, ft{k, v.Name})
				}
			case "InfoModel":
				im = cl
			}
		}
	}
	sb.WriteString("(* var FieldTypes = map[string]FieldType{...}: type name, FieldType value *)\nDefinition field_types : list (string * Z) := [\n")
	for i, e := range fts {
		sep := ";"
		if i == len(fts)-1 {
			sep = ""
		}
		v, ok := constVal[e.c]
		if !ok {
			problem("FieldTypes[%q] = %s is not a FieldType constant", e.name, e.c)
		}
		fmt.Fprintf(&sb, "  (%s, %d)%s\n", coqStr(e.name), v, sep)
	}
	sb.WriteString("]%Z.\n\n")

	// 3. var InfoModel = IANAInfoModel{ ElementKey{pen,id}: InfoElementEntry{FieldID:, Name:, Type: FieldTypes["x"] | Const}, ... }
	type entry struct {
		pen, id, fid int64
		name         string
		tname        string // FieldTypes["tname"]  (empty if a constant was written)
		tconst       string
	}
	var entries []entry
	if im == nil {
		problem("InfoModel literal not found")
	} else {
		for _, e := range im.Elts {
			kv, ok := e.(*ast.KeyValueExpr)
			if !ok {
				problem("InfoModel: element is not key:value")
				continue
			}
			var en entry
			kcl, ok := kv.Key.(*ast.CompositeLit)
			if !ok || len(kcl.Elts) != 2 {
				problem("InfoModel: key is not ElementKey{pen,id}")
				continue
			}
			kvals := [2]int64{}
			for i, ke := range kcl.Elts {
				x := ke
				if kkv, ok := ke.(*ast.KeyValueExpr); ok {
					x = kkv.Value
					if id, ok := kkv.Key.(*ast.Ident); ok && id.Name == "ElementID" {
						i = 1
					} else {
						i = 0
					}
				}
				n, ok := intLit(x)
				if !ok {
					problem("InfoModel: non-literal key component")
				}
				kvals[i] = n
			}
			en.pen, en.id = kvals[0], kvals[1]
			vcl, ok := kv.Value.(*ast.CompositeLit)
			if !ok {
				problem("InfoModel[%d,%d]: value is not a composite literal", en.pen, en.id)
				continue
			}
			for i, ve := range vcl.Elts {
				fname := [3]string{"FieldID", "Name", "Type"}[i%3]
				x := ve
				if vkv, ok := ve.(*ast.KeyValueExpr); ok {
					fname = vkv.Key.(*ast.Ident).Name
					x = vkv.Value
				}
				switch fname {
				case "FieldID":
					n, ok := intLit(x)
					if !ok {
						problem("InfoModel[%d,%d]: FieldID not a literal", en.pen, en.id)
					}
					en.fid = n
				case "Name":
					s, ok := strLit(x)
					if !ok {
						problem("InfoModel[%d,%d]: Name not a literal", en.pen, en.id)
					}
					en.name = s
				case "Type":
					switch t := x.(type) {
					case *ast.IndexExpr:
						if id, ok := t.X.(*ast.Ident); ok && id.Name == "FieldTypes" {
							s, ok := strLit(t.Index)
							if !ok {
								problem("InfoModel[%d,%d]: FieldTypes index not a literal", en.pen, en.id)
							}
							en.tname = s
						} else {
							problem("InfoModel[%d,%d]: Type expression not recognised", en.pen, en.id)
						}
					case *ast.Ident:
						en.tconst = t.Name
						if _, ok := constVal[t.Name]; !ok {
							problem("InfoModel[%d,%d]: Type %s is not a FieldType constant", en.pen, en.id, t.Name)
						}
					default:
						problem("InfoModel[%d,%d]: Type expression not recognised", en.pen, en.id)
					}
				}
			}
			entries = append(entries, en)
		}
	}
	sort.SliceStable(entries, func(i, j int) bool {
		if entries[i].pen != entries[j].pen {
			return entries[i].pen < entries[j].pen
		}
		return entries[i].id < entries[j].id
	})
	sb.WriteString("(* var InfoModel = IANAInfoModel{...}: (enterprise no, element id) of the KEY, then FieldID, Name, Type expression; sorted by key *)\n")
	sb.WriteString("Definition builtin : list (Z * Z * (Z * string * type_expr)) := [\n")
	for i, e := range entries {
		sep := ";"
		if i == len(entries)-1 {
			sep = ""
		}
		te := "ByName " + coqStr(e.tname)
		if e.tconst != "" {
			te = "ByConst " + coqStr(e.tconst)
		}
		fmt.Fprintf(&sb, "  (%d, %d, (%d, %s, %s))%s\n", e.pen, e.id, e.fid, coqStr(e.name), te, sep)
	}
	sb.WriteString("]%Z.\n\n")

	// 4. scripts/ipfix.elements, parsed exactly as LoadExtElements parses it
	var shipped map[uint32]map[uint16][]string
	b, err := ioutil.ReadFile(filepath.Join(*repo, "scripts/ipfix.elements"))
	if err != nil {
		problem("scripts/ipfix.elements unreadable: %v", err)
	} else if err := yaml.Unmarshal(b, &shipped); err != nil {
		problem("scripts/ipfix.elements does not parse as map[uint32]map[uint16][]string: %v", err)
		shipped = nil
	}
	type sk struct{ pen, id int64 }
	var keys []sk
	for pen, m := range shipped {
		for id := range m {
			keys = append(keys, sk{int64(pen), int64(id)})
		}
	}
	sort.Slice(keys, func(i, j int) bool {
		if keys[i].pen != keys[j].pen {
			return keys[i].pen < keys[j].pen
		}
		return keys[i].id < keys[j].id
	})
	sb.WriteString("(* scripts/ipfix.elements as yaml.Unmarshal into map[uint32]map[uint16][]string yields it; sorted by key *)\n")
	sb.WriteString("Definition shipped : list (Z * Z * list string) := [\n")
	for i, k := range keys {
		sep := ";"
		if i == len(keys)-1 {
			sep = ""
		}
		props := shipped[uint32(k.pen)][uint16(k.id)]
		var ps []string
		for _, p := range props {
			ps = append(ps, coqStr(p))
		}
		fmt.Fprintf(&sb, "  (%d, %d, [%s])%s\n", k.pen, k.id, strings.Join(ps, "; "), sep)
	}
	sb.WriteString("]%Z.\n")
	writeIfChanged("InfoModel.v", sb.String())
	manifest["infomodel"] = map[string]interface{}{"type_consts": len(consts), "field_types": len(fts), "builtin": len(entries), "shipped": len(keys)}
}
