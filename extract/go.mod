module verif/extract

go 1.15

require (
	github.com/EdgeCast/vflow v0.0.0
	gopkg.in/yaml.v2 v2.3.0
)

replace github.com/EdgeCast/vflow => /repo
