// cachekey.go: MemCache.getShard of ipfix/memcache.go and netflow/v9/memcache.go, statement by statement (normalised
// source text), emitted as Gen/CacheKey.v.  Model/Cache.v transcribes exactly these statements (key = address || be16 id,
// shard = FNV-1-32(key) mod shardNo, map key = hex(key)); Properties/C04.v proves the regenerated text equal to the
// transcribed one, so ANY edit of getShard has to be looked at (injectivity of the key is what C04 rests on).
package main

import (
	"fmt"
	"go/ast"
	"strings"
)

// ---- symbolic reading of getShard: what the shard index and the map key ARE, as terms over id, addr and shardNo ----
// Concat(a,b) | BE16(x) | FNV1_32(x) | Mod(a,b) | Hex(x) | m[i] | ?<source> (anything not understood)
type symEnv map[string]string

func (env symEnv) funcDecl(f *ast.File, name string) *ast.FuncDecl {
	for _, d := range f.Decls {
		if fd, ok := d.(*ast.FuncDecl); ok && fd.Body != nil && fd.Name.Name == name && name != "getShard" {
			return fd
		}
	}
	return nil
}

func symEval(f *ast.File, env symEnv, e ast.Expr, depth int) string {
	switch x := e.(type) {
	case *ast.ParenExpr:
		return symEval(f, env, x.X, depth)
	case *ast.Ident:
		if v, ok := env[x.Name]; ok {
			return v
		}
		return x.Name
	case *ast.BinaryExpr:
		if x.Op.String() == "%" {
			return "Mod(" + symEval(f, env, x.X, depth) + "," + symEval(f, env, x.Y, depth) + ")"
		}
	case *ast.IndexExpr:
		return symEval(f, env, x.X, depth) + "[" + symEval(f, env, x.Index, depth) + "]"
	case *ast.CallExpr:
		fn := squash(exprString(x.Fun))
		switch {
		case (fn == "uint" || fn == "int" || fn == "uint64") && len(x.Args) == 1:
			return symEval(f, env, x.Args[0], depth) // widening conversions of a 32-bit sum / of shardNo
		case fn == "make" && len(x.Args) == 2 && squash(exprString(x.Args[0])) == "[]byte" && squash(exprString(x.Args[1])) == "2":
			return "Zero2"
		case fn == "fnv.New32" && len(x.Args) == 0:
			return "FNV1_32()"
		case fn == "hex.EncodeToString" && len(x.Args) == 1:
			return "Hex(" + symEval(f, env, x.Args[0], depth) + ")"
		case fn == "append" && len(x.Args) == 2 && x.Ellipsis.IsValid():
			return "Concat(" + symEval(f, env, x.Args[0], depth) + "," + symEval(f, env, x.Args[1], depth) + ")"
		case fn == "append" && len(x.Args) == 3 && !x.Ellipsis.IsValid():
			// append(a, byte(v>>8), byte(v)): the two octets of v, high one first
			hi, lo := strings.ReplaceAll(squash(exprString(x.Args[1])), " ", ""), strings.ReplaceAll(squash(exprString(x.Args[2])), " ", "")
			if strings.HasPrefix(lo, "byte(") && hi == "byte("+lo[5:len(lo)-1]+">>8)" {
				return "Concat(" + symEval(f, env, x.Args[0], depth) + ",BE16(" + lo[5:len(lo)-1] + "))"
			}
		}
		if se, ok := x.Fun.(*ast.SelectorExpr); ok && se.Sel.Name == "Sum32" && len(x.Args) == 0 {
			return symEval(f, env, se.X, depth)
		}
		// a helper of the same file: its return value with the parameters bound
		if id, ok := x.Fun.(*ast.Ident); ok && depth < 3 {
			if fd := env.funcDecl(f, id.Name); fd != nil && fd.Recv == nil && fd.Type.Params != nil {
				env2 := symEnv{}
				i := 0
				for _, fl := range fd.Type.Params.List {
					for _, n := range fl.Names {
						if i < len(x.Args) {
							env2[n.Name] = symEval(f, env, x.Args[i], depth)
						}
						i++
					}
				}
				if r := symBody(f, env2, fd.Body.List, depth+1); len(r) == 1 {
					return r[0]
				}
			}
		}
	}
	return "?" + squash(exprString(e))
}

// symBody runs the statements and returns the terms of the return statement
func symBody(f *ast.File, env symEnv, list []ast.Stmt, depth int) []string {
	for _, st := range list {
		switch x := st.(type) {
		case *ast.AssignStmt:
			if len(x.Lhs) == 1 && len(x.Rhs) == 1 {
				if id, ok := x.Lhs[0].(*ast.Ident); ok {
					env[id.Name] = symEval(f, env, x.Rhs[0], depth)
					continue
				}
			}
			return []string{"?" + squash(exprString(st))}
		case *ast.ExprStmt:
			c, ok := x.X.(*ast.CallExpr)
			if !ok {
				return []string{"?" + squash(exprString(st))}
			}
			fn := squash(exprString(c.Fun))
			if fn == "binary.BigEndian.PutUint16" && len(c.Args) == 2 {
				if id, ok := c.Args[0].(*ast.Ident); ok && env[id.Name] == "Zero2" {
					env[id.Name] = "BE16(" + symEval(f, env, c.Args[1], depth) + ")"
					continue
				}
			}
			if se, ok := c.Fun.(*ast.SelectorExpr); ok && se.Sel.Name == "Write" && len(c.Args) == 1 {
				if id, ok := se.X.(*ast.Ident); ok && env[id.Name] == "FNV1_32()" {
					env[id.Name] = "FNV1_32(" + symEval(f, env, c.Args[0], depth) + ")"
					continue
				}
			}
			return []string{"?" + squash(exprString(st))}
		case *ast.ReturnStmt:
			var out []string
			for _, r := range x.Results {
				out = append(out, symEval(f, env, r, depth))
			}
			return out
		case *ast.DeclStmt, *ast.EmptyStmt:
			continue
		default:
			return []string{"?" + squash(exprString(st))}
		}
	}
	return nil
}

func genCacheKey() {
	files := []struct{ name, file string }{{"ipfix", "ipfix/memcache.go"}, {"nf9", "netflow/v9/memcache.go"}}
	var rows, semRows []string
	for _, pf := range files {
		_, f := parseFile(pf.file)
		var stmts []string
		sig := ""
		for _, d := range f.Decls {
			fd, ok := d.(*ast.FuncDecl)
			if !ok || fd.Name.Name != "getShard" || fd.Body == nil {
				continue
			}
			sig = exprString(fd.Type)
			for _, st := range fd.Body.List {
				stmts = append(stmts, strings.Join(strings.Fields(exprString(st)), " "))
			}
		}
		if sig == "" {
			problem("%s: getShard not found", pf.file)
		}
		var q []string
		for _, s := range append([]string{sig}, stmts...) {
			q = append(q, coqStr(s))
		}
		rows = append(rows, fmt.Sprintf("(%s, [%s])", coqStr(pf.name), strings.Join(q, ";\n     ")))
		// ... and what those statements compute
		var sem []string
		for _, d := range f.Decls {
			if fd, ok := d.(*ast.FuncDecl); ok && fd.Name.Name == "getShard" && fd.Body != nil {
				sem = symBody(f, symEnv{}, fd.Body.List, 0)
			}
		}
		var sq []string
		for _, t := range sem {
			sq = append(sq, coqStr(t))
		}
		semRows = append(semRows, fmt.Sprintf("(%s, [%s])", coqStr(pf.name), strings.Join(sq, "; ")))
	}
	var b strings.Builder
	b.WriteString(header("MemCache.getShard of ipfix/memcache.go and netflow/v9/memcache.go"))
	b.WriteString("(* cache, the signature and the statements of getShard *)\n")
	b.WriteString("Definition get_shard_src : list (string * list string) :=\n  [" + strings.Join(rows, ";\n   ") + "].\n")
	b.WriteString("\n(* cache, what getShard returns, read symbolically: the shard and the map key as terms over id, addr, shardNo *)\n")
	b.WriteString("Definition get_shard_sem : list (string * list string) :=\n  [" + strings.Join(semRows, ";\n   ") + "].\n")
	writeIfChanged("CacheKey.v", b.String())
}

func init() { extraGenerators = append(extraGenerators, genCacheKey) }
