// cachekey.go: MemCache.getShard of ipfix/memcache.go and netflow/v9/memcache.go, statement by statement (normalised
// source text), emitted as Gen/CacheKey.v.  Model/Cache.v transcribes exactly these statements (key = address || be16 id,
// shard = FNV-1-32(key) mod shardNo, map key = hex(key)); Properties/C04.v proves the regenerated text equal to the
// transcribed one, so ANY edit of getShard has to be looked at (injectivity of the key is what C04 rests on).
package main

import (
	"fmt"
	"go/ast"
	"strings"
)

func genCacheKey() {
	files := []struct{ name, file string }{{"ipfix", "ipfix/memcache.go"}, {"nf9", "netflow/v9/memcache.go"}}
	var rows []string
	for _, pf := range files {
		_, f := parseFile(pf.file)
		var stmts []string
		sig := ""
		for _, d := range f.Decls {
			fd, ok := d.(*ast.FuncDecl)
			if !ok || fd.Name.Name != "getShard" || fd.Body == nil {
				continue
			}
			sig = exprString(fd.Type)
			for _, st := range fd.Body.List {
				stmts = append(stmts, strings.Join(strings.Fields(exprString(st)), " "))
			}
		}
		if sig == "" {
			problem("%s: getShard not found", pf.file)
		}
		var q []string
		for _, s := range append([]string{sig}, stmts...) {
			q = append(q, coqStr(s))
		}
		rows = append(rows, fmt.Sprintf("(%s, [%s])", coqStr(pf.name), strings.Join(q, ";\n     ")))
	}
	var b strings.Builder
	b.WriteString(header("MemCache.getShard of ipfix/memcache.go and netflow/v9/memcache.go"))
	b.WriteString("(* cache, the signature and the statements of getShard *)\n")
	b.WriteString("Definition get_shard_src : list (string * list string) :=\n  [" + strings.Join(rows, ";\n   ") + "].\n")
	writeIfChanged("CacheKey.v", b.String())
}

func init() { extraGenerators = append(extraGenerators, genCacheKey) }
