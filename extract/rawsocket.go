// rawsocket.go: the send / retry / redial loop of producer/rawSocket.go inputMsg, as the facts the connection-level
// model (coq/Model/ProducerConn.v) is built on:
//   write_form     how one attempt writes: "whole-line" when the attempt writes the message received from the channel plus
//                  one newline, from its first octet (fmt.Fprintf(conn, "%s\n", msg), fmt.Fprintln(conn, string(msg)),
//                  conn.Write(append(msg, '\n'))), otherwise the expression as it stands
//   write_in_loop  the write is a statement of the retry loop (every attempt writes again)
//   msg_stable     the message variable is assigned only from the channel, outside the retry loop
//   conn_methods   every method called on rs.connection anywhere in the file (deadlines make an error non-fatal)
//   conn_users     every function rs.connection is passed to
//   redial_on      the condition under which the loop dials again
//   redial_call    the call that dials
//   retry_break    the condition that ends the attempts
//   counts_errors  *ec++ follows a failed attempt
// Emitted as Gen/RawSocket.v; Properties/C14.v states what the model assumes about them.
package main

import (
	"fmt"
	"go/ast"
	"go/token"
	"sort"
	"strings"
)

func stripParens(e ast.Expr) ast.Expr {
	for {
		p, ok := e.(*ast.ParenExpr)
		if !ok {
			return e
		}
		e = p.X
	}
}

func squash(s string) string { return strings.Join(strings.Fields(s), " ") }

func genRawSocket() {
	_, f := parseFile("producer/rawSocket.go")
	isConn := func(e ast.Expr) bool { return squash(exprString(stripParens(e))) == "rs.connection" }
	methods, users := map[string]bool{}, map[string]bool{}
	ast.Inspect(f, func(n ast.Node) bool {
		c, ok := n.(*ast.CallExpr)
		if !ok {
			return true
		}
		if sel, ok := c.Fun.(*ast.SelectorExpr); ok && isConn(sel.X) {
			methods[sel.Sel.Name] = true
		}
		for _, a := range c.Args {
			if isConn(a) {
				users[squash(exprString(c.Fun))] = true
			}
		}
		return true
	})
	writeForm, writeInLoop, msgStable, redialOn, redialCall, retryBreak, counts := "none", false, false, "none", "none", "none", false
	for _, d := range f.Decls {
		fd, ok := d.(*ast.FuncDecl)
		if !ok || fd.Name.Name != "inputMsg" || fd.Body == nil {
			continue
		}
		// the outer loop receives from the channel; the inner loop is the retry loop
		var outer, inner *ast.ForStmt
		msgVar := ""
		for _, st := range fd.Body.List {
			if fs, ok := st.(*ast.ForStmt); ok {
				outer = fs
			}
			// for msg := range mCh { ... } is the same loop: receive until the channel is closed
			if rs, ok := st.(*ast.RangeStmt); ok && rs.Key != nil && rs.Value == nil && rs.Tok == token.DEFINE {
				if id, ok := rs.Key.(*ast.Ident); ok {
					msgVar = id.Name
					outer = &ast.ForStmt{For: rs.For, Body: rs.Body}
				}
			}
		}
		if outer == nil {
			problem("producer/rawSocket.go: inputMsg has no message loop")
			continue
		}
		// a line built once per message, before the attempts: X := make([]byte, 0, n) / []byte{} ; X = append(X, msg...) ; X = append(X, '\n')
		built := map[string][]string{}
		for _, st := range outer.Body.List {
			as, ok := st.(*ast.AssignStmt)
			if !ok || len(as.Lhs) != 1 || len(as.Rhs) != 1 {
				continue
			}
			lhs, ok := as.Lhs[0].(*ast.Ident)
			if !ok {
				continue
			}
			var eval func(e ast.Expr) ([]string, bool)
			eval = func(e ast.Expr) ([]string, bool) {
				t := strings.ReplaceAll(squash(exprString(e)), " ", "")
				if strings.HasPrefix(t, "make([]byte,0") || t == "[]byte{}" || t == "[]byte(nil)" {
					return []string{}, true
				}
				if id, ok := e.(*ast.Ident); ok {
					if p, ok := built[id.Name]; ok {
						return append([]string{}, p...), true
					}
				}
				c, ok := e.(*ast.CallExpr)
				if !ok || squash(exprString(c.Fun)) != "append" || len(c.Args) != 2 {
					return nil, false
				}
				base, ok := eval(c.Args[0])
				if !ok {
					return nil, false
				}
				a := strings.ReplaceAll(squash(exprString(c.Args[1])), " ", "")
				switch {
				case c.Ellipsis.IsValid() && a == msgVar:
					return append(base, "msg"), true
				case !c.Ellipsis.IsValid() && (a == "'\\n'" || a == "10" || a == "byte('\\n')"):
					return append(base, "nl"), true
				}
				return nil, false
			}
			if p, ok := eval(as.Rhs[0]); ok {
				built[lhs.Name] = p
			} else {
				delete(built, lhs.Name)
			}
		}
		for _, st := range outer.Body.List {
			if as, ok := st.(*ast.AssignStmt); ok && len(as.Rhs) == 1 {
				if u, ok := as.Rhs[0].(*ast.UnaryExpr); ok && u.Op == token.ARROW {
					if id, ok := as.Lhs[0].(*ast.Ident); ok {
						msgVar = id.Name
					}
				}
			}
			if fs, ok := st.(*ast.ForStmt); ok {
				inner = fs
			}
		}
		if r, ok := interface{}(outer).(*ast.ForStmt); ok && r.Cond == nil && msgVar == "" {
			problem("producer/rawSocket.go: the message is not received from the channel by a plain assignment")
		}
		if inner == nil {
			problem("producer/rawSocket.go: inputMsg has no retry loop")
			continue
		}
		// assignments to the message variable: only the receive, and not inside the retry loop
		msgStable = msgVar != ""
		ast.Inspect(fd.Body, func(n ast.Node) bool {
			as, ok := n.(*ast.AssignStmt)
			if !ok {
				return true
			}
			for _, l := range as.Lhs {
				if id, ok := l.(*ast.Ident); ok && id.Name == msgVar {
					u, isRecv := as.Rhs[0].(*ast.UnaryExpr)
					if !(isRecv && u.Op == token.ARROW) || (as.Pos() >= inner.Pos() && as.End() <= inner.End()) {
						msgStable = false
					}
				}
			}
			return true
		})
		// the write: the first call in the retry loop that involves the connection
		lineVar := ""
		wholeLine := func(c *ast.CallExpr) bool {
			fn := squash(exprString(c.Fun))
			switch {
			case fn == "fmt.Fprintf" && len(c.Args) == 3 && isConn(c.Args[0]):
				s, ok := strLit(c.Args[1])
				return ok && s == "%s\n" && squash(exprString(c.Args[2])) == msgVar
			case fn == "fmt.Fprintln" && len(c.Args) == 2 && isConn(c.Args[0]):
				return squash(exprString(c.Args[1])) == "string("+msgVar+")"
			case fn == "rs.connection.Write" && len(c.Args) == 1:
				a := strings.ReplaceAll(squash(exprString(c.Args[0])), " ", "")
				if p, ok := built[a]; ok && len(p) == 2 && p[0] == "msg" && p[1] == "nl" {
					// (Write does not consume its argument; the local is checked below not to be assigned inside the retry loop)
					lineVar = a
					return true
				}
				return a == "append("+msgVar+",'\\n')" || a == "append("+msgVar+",10)"
			}
			return false
		}
		for _, st := range inner.Body.List {
			var call *ast.CallExpr
			ast.Inspect(st, func(n ast.Node) bool {
				if _, isIf := n.(*ast.IfStmt); isIf && n != ast.Node(st) {
					return true
				}
				c, ok := n.(*ast.CallExpr)
				if !ok || call != nil {
					return true
				}
				uses := false
				if sel, ok := c.Fun.(*ast.SelectorExpr); ok && isConn(sel.X) {
					uses = true
				}
				for _, a := range c.Args {
					if isConn(a) {
						uses = true
					}
				}
				if uses {
					call = c
				}
				return true
			})
			if call != nil {
				if _, isIf := st.(*ast.IfStmt); !isIf || true {
					writeInLoop = true
				}
				if wholeLine(call) {
					writeForm = "whole-line"
				} else {
					writeForm = squash(exprString(call))
				}
				break
			}
		}
		if lineVar != "" {
			ast.Inspect(inner, func(n ast.Node) bool {
				if as, ok := n.(*ast.AssignStmt); ok {
					for _, l := range as.Lhs {
						if id, ok := l.(*ast.Ident); ok && id.Name == lineVar {
							msgStable = false
						}
					}
				}
				return true
			})
		}
		if !writeInLoop {
			// a write before the retry loop, or none at all
			ast.Inspect(fd.Body, func(n ast.Node) bool {
				if c, ok := n.(*ast.CallExpr); ok && writeForm == "none" {
					for _, a := range c.Args {
						if isConn(a) {
							writeForm = "outside the retry loop: " + squash(exprString(c))
						}
					}
				}
				return true
			})
		}
		ast.Inspect(inner.Body, func(n ast.Node) bool {
			switch x := n.(type) {
			case *ast.IncDecStmt:
				if x.Tok == token.INC && squash(exprString(x.X)) == "*ec" {
					counts = true
				}
			case *ast.IfStmt:
				cond := squash(exprString(stripParens(x.Cond)))
				dials := ""
				ast.Inspect(x.Body, func(m ast.Node) bool {
					if c, ok := m.(*ast.CallExpr); ok && strings.HasSuffix(squash(exprString(c.Fun)), "Dial") && dials == "" {
						dials = squash(exprString(c))
					}
					return true
				})
				if dials != "" && redialOn == "none" {
					redialOn, redialCall = cond, dials
				}
				breaks := false
				for _, s := range x.Body.List {
					if b, ok := s.(*ast.BranchStmt); ok && b.Tok == token.BREAK {
						breaks = true
					}
				}
				if breaks && cond != "err == nil" && retryBreak == "none" {
					retryBreak = strings.ReplaceAll(strings.ReplaceAll(cond, "(", ""), ")", "")
					// the attempt counter of the retry loop is written i, whatever it is called
					if as, ok := inner.Init.(*ast.AssignStmt); ok && len(as.Lhs) == 1 {
						if id, ok := as.Lhs[0].(*ast.Ident); ok && strings.HasPrefix(retryBreak, id.Name+" ") {
							retryBreak = "i" + strings.TrimPrefix(retryBreak, id.Name)
						}
					}
				}
			}
			return true
		})
	}
	keys := func(m map[string]bool) []string {
		var ks []string
		for k := range m {
			ks = append(ks, k)
		}
		sort.Strings(ks)
		return ks
	}
	list := func(ss []string) string {
		var q []string
		for _, s := range ss {
			q = append(q, coqStr(s))
		}
		return "[" + strings.Join(q, "; ") + "]"
	}
	var b strings.Builder
	b.WriteString(header("producer/rawSocket.go (inputMsg: the send / retry / redial loop)"))
	fmt.Fprintf(&b, "Definition write_form : string := %s.\n", coqStr(writeForm))
	fmt.Fprintf(&b, "Definition write_in_loop : bool := %v.\n", writeInLoop)
	fmt.Fprintf(&b, "Definition msg_stable : bool := %v.\n", msgStable)
	fmt.Fprintf(&b, "Definition conn_methods : list string := %s.\n", list(keys(methods)))
	fmt.Fprintf(&b, "Definition conn_users : list string := %s.\n", list(keys(users)))
	fmt.Fprintf(&b, "Definition redial_on : string := %s.\n", coqStr(redialOn))
	fmt.Fprintf(&b, "Definition redial_call : string := %s.\n", coqStr(redialCall))
	fmt.Fprintf(&b, "Definition retry_break : string := %s.\n", coqStr(retryBreak))
	fmt.Fprintf(&b, "Definition counts_errors : bool := %v.\n", counts)
	writeIfChanged("RawSocket.v", b.String())
	manifest["rawsocket"] = map[string]interface{}{"write_form": writeForm, "write_in_loop": writeInLoop, "msg_stable": msgStable,
		"conn_methods": keys(methods), "conn_users": keys(users), "redial_on": redialOn, "redial_call": redialCall,
		"retry_break": retryBreak, "counts_errors": counts}
}

func init() { extraGenerators = append(extraGenerators, genRawSocket) }
