// pools.go: the receive-buffer pools of vflow/{ipfix,netflow_v9,netflow_v5,sflow}{,_unix}.go.
// The receive loop reads a datagram into whatever slice the pool hands out, so every slice returned to a
// pool must be re-sliced to that pool's full size: <pool>.Put(x[:opts.<Proto>UDPSize]), and the pool's New
// must make slices of that size.  Emitted as Gen/Pools.v; Properties/C12.v proves every entry conforming.
package main

import (
	"fmt"
	"go/ast"
	"strings"
)

var poolSize = map[string]string{"ipfixBuffer": "IPFIXUDPSize", "sFlowBuffer": "SFlowUDPSize", "netflowV9Buffer": "NetflowV9UDPSize", "netflowV5Buffer": "NetflowV5UDPSize"}

// newSource: the source text that decides what the pool's New makes: the composite literal itself and, when New names a
// function of the same file instead of a closure, that function's body
func newSource(f *ast.File, e ast.Expr) string {
	src := exprString(e)
	ast.Inspect(e, func(n ast.Node) bool {
		kv, ok := n.(*ast.KeyValueExpr)
		if !ok || exprString(kv.Key) != "New" {
			return true
		}
		if id, ok := kv.Value.(*ast.Ident); ok {
			for _, d := range f.Decls {
				if fd, ok := d.(*ast.FuncDecl); ok && fd.Recv == nil && fd.Name.Name == id.Name && fd.Body != nil {
					src += " " + exprString(fd.Body)
				}
			}
		}
		return true
	})
	return src
}

func genPools() {
	files := []string{"vflow/ipfix.go", "vflow/ipfix_unix.go", "vflow/netflow_v9.go", "vflow/netflow_v5.go", "vflow/sflow.go", "vflow/sflow_unix.go"}
	var rows []string
	n := 0
	for _, file := range files {
		_, f := parseFile(file)
		ast.Inspect(f, func(nd ast.Node) bool {
			c, ok := nd.(*ast.CallExpr)
			if !ok {
				return true
			}
			sel, ok := c.Fun.(*ast.SelectorExpr)
			if !ok {
				return true
			}
			pool, ok := sel.X.(*ast.Ident)
			if !ok {
				return true
			}
			want, isPool := poolSize[pool.Name]
			if !isPool {
				return true
			}
			switch sel.Sel.Name {
			case "Put":
				ok := false
				arg := ""
				if len(c.Args) == 1 {
					arg = exprString(c.Args[0])
					if se, isSlice := c.Args[0].(*ast.SliceExpr); isSlice && se.Low == nil && se.High != nil && !se.Slice3 {
						ok = exprString(se.High) == "opts."+want
					}
				}
				rows = append(rows, fmt.Sprintf("(%s, %s, %s, %v)", coqStr(file), coqStr(pool.Name), coqStr("Put("+arg+")"), ok))
				n++
			}
			return true
		})
		// the pools' New functions: &sync.Pool{New: func() interface{} { return make([]byte, opts.XUDPSize) }}
		ast.Inspect(f, func(nd ast.Node) bool {
			as, ok := nd.(*ast.AssignStmt)
			if !ok || len(as.Lhs) != 1 || len(as.Rhs) != 1 {
				return true
			}
			id, ok := as.Lhs[0].(*ast.Ident)
			if !ok {
				return true
			}
			want, isPool := poolSize[id.Name]
			if !isPool {
				return true
			}
			src := newSource(f, as.Rhs[0])
			good := strings.Contains(strings.Join(strings.Fields(src), ""), "make([]byte,opts."+want+")")
			rows = append(rows, fmt.Sprintf("(%s, %s, %s, %v)", coqStr(file), coqStr(id.Name), coqStr("New"), good))
			return true
		})
		ast.Inspect(f, func(nd ast.Node) bool {
			vs, ok := nd.(*ast.ValueSpec)
			if !ok {
				return true
			}
			for i, id := range vs.Names {
				want, isPool := poolSize[id.Name]
				if !isPool || i >= len(vs.Values) {
					continue
				}
				src := newSource(f, vs.Values[i])
				good := strings.Contains(strings.Join(strings.Fields(src), ""), "make([]byte,opts."+want+")")
				rows = append(rows, fmt.Sprintf("(%s, %s, %s, %v)", coqStr(file), coqStr(id.Name), coqStr("New"), good))
			}
			return true
		})
	}
	var b strings.Builder
	b.WriteString(header("the sync.Pool uses of vflow/{ipfix,netflow_v9,netflow_v5,sflow}{,_unix}.go"))
	b.WriteString("(* file, pool, operation, `the slice has the pool's full size` *)\n")
	b.WriteString("Definition pool_uses : list (string * string * string * bool) :=\n  [" + strings.Join(rows, ";\n   ") + "].\n")
	writeIfChanged("Pools.v", b.String())
	manifest["pools"] = map[string]interface{}{"puts": n, "entries": len(rows)}
}

func init() { extraGenerators = append(extraGenerators, genPools) }
