package main

import (
	"fmt"
	"go/ast"
	"strconv"
	"strings"
)

// The hand-written JSON encoders that are straight sequences of buffer writes
// (encodeHeader / encodeAgent / encodeFlow) become ordered lists of pieces:
//   PLit "text" | PNum "Field" (strconv.FormatInt(int64(x.Field),10)) | PIP4 "Field"
//   (BigEndian.PutUint32(ip, x.Field); ip.String()) | PStr "Field" (WriteString(x.Field)) | POpaque "..."

type pieceSpec struct {
	coqName string
	file    string
	fn      string
}

var pieceSpecs = []pieceSpec{
	{"nf5_agent_pieces", "netflow/v5/marshal.go", "encodeAgent"},
	{"nf5_header_pieces", "netflow/v5/marshal.go", "encodeHeader"},
	{"nf5_flow_pieces", "netflow/v5/marshal.go", "encodeFlow"},
	{"nf9_agent_pieces", "netflow/v9/marshal.go", "encodeAgent"},
	{"nf9_header_pieces", "netflow/v9/marshal.go", "encodeHeader"},
	{"ipfix_agent_pieces", "ipfix/marshal.go", "encodeAgent"},
	{"ipfix_header_pieces", "ipfix/marshal.go", "encodeHeader"},
}

func lastSel(e ast.Expr) string {
	if s, ok := e.(*ast.SelectorExpr); ok {
		return s.Sel.Name
	}
	return ""
}

// substExpr replaces the identifiers of env (a helper's parameters) by the caller's argument expressions
func substExpr(e ast.Expr, env map[string]ast.Expr) ast.Expr {
	switch x := e.(type) {
	case *ast.Ident:
		if r, ok := env[x.Name]; ok {
			return r
		}
		return x
	case *ast.CallExpr:
		c := *x
		c.Fun = substExpr(x.Fun, env)
		c.Args = nil
		for _, a := range x.Args {
			c.Args = append(c.Args, substExpr(a, env))
		}
		return &c
	case *ast.SelectorExpr:
		c := *x
		c.X = substExpr(x.X, env)
		return &c
	case *ast.ParenExpr:
		return substExpr(x.X, env)
	case *ast.UnaryExpr:
		c := *x
		c.X = substExpr(x.X, env)
		return &c
	case *ast.StarExpr:
		if id, ok := x.X.(*ast.Ident); ok {
			if r, ok := env["*"+id.Name]; ok {
				return r
			}
		}
		c := *x
		c.X = substExpr(x.X, env)
		return &c
	case *ast.IndexExpr:
		c := *x
		c.X = substExpr(x.X, env)
		c.Index = substExpr(x.Index, env)
		return &c
	case *ast.BinaryExpr:
		c := *x
		c.X = substExpr(x.X, env)
		c.Y = substExpr(x.Y, env)
		return &c
	case *ast.SliceExpr:
		c := *x
		c.X = substExpr(x.X, env)
		if x.Low != nil {
			c.Low = substExpr(x.Low, env)
		}
		if x.High != nil {
			c.High = substExpr(x.High, env)
		}
		if x.Max != nil {
			c.Max = substExpr(x.Max, env)
		}
		return &c
	}
	return e
}

// stripConv removes integer conversions: int64(x), uint64(x), uint32(x) ... -> x
func stripConv(e ast.Expr) ast.Expr {
	for {
		c, ok := e.(*ast.CallExpr)
		if !ok || len(c.Args) != 1 {
			return e
		}
		switch exprString(c.Fun) {
		case "int64", "uint64", "int", "uint", "uint32", "int32", "uint16", "uint8":
			e = c.Args[0]
		default:
			return e
		}
	}
}

type pieceWalker struct {
	f         *ast.File
	out       []string
	pendingIP string
	depth     int
}

func (w *pieceWalker) helper(name string) *ast.FuncDecl {
	for _, d := range w.f.Decls {
		if fd, ok := d.(*ast.FuncDecl); ok && fd.Name.Name == name && fd.Body != nil {
			return fd
		}
	}
	return nil
}

func (w *pieceWalker) stmts(list []ast.Stmt, env map[string]ast.Expr) {
	for _, st := range list {
		es, ok := st.(*ast.ExprStmt)
		if !ok {
			if as, ok := st.(*ast.AssignStmt); ok {
				t := exprString(as)
				if t == "ip := make(net.IP, 4)" {
					continue
				}
				// a local alias of (part of) the message: h := &m.Header / h := m.Header (fields are named by their last selector)
				if len(as.Lhs) == 1 && len(as.Rhs) == 1 && as.Tok.String() == ":=" {
					r := as.Rhs[0]
					if u, ok := r.(*ast.UnaryExpr); ok && u.Op.String() == "&" {
						r = u.X
					}
					if _, ok := r.(*ast.SelectorExpr); ok {
						continue
					}
				}
			}
			w.out = append(w.out, "POpaque "+coqStr(exprString(st)))
			continue
		}
		call, ok := es.X.(*ast.CallExpr)
		if !ok {
			w.out = append(w.out, "POpaque "+coqStr(exprString(st)))
			continue
		}
		if env != nil {
			call = substExpr(call, env).(*ast.CallExpr)
		}
		fun := exprString(call.Fun)
		switch {
		case fun == "b.WriteString" && len(call.Args) == 1:
			a := call.Args[0]
			if s, ok := strLit(a); ok {
				w.out = append(w.out, "PLit "+coqStr(s))
			} else if c, ok := a.(*ast.CallExpr); ok && (exprString(c.Fun) == "strconv.FormatInt" || exprString(c.Fun) == "strconv.FormatUint") && len(c.Args) == 2 && exprString(c.Args[1]) == "10" {
				// FormatInt(int64(x.F), 10) / FormatUint(uint64(x.F), 10): the decimal digits of a field
				if conv, ok := c.Args[0].(*ast.CallExpr); ok && len(conv.Args) == 1 && lastSel(stripConv(conv)) != "" &&
					((exprString(c.Fun) == "strconv.FormatInt" && exprString(conv.Fun) == "int64") || (exprString(c.Fun) == "strconv.FormatUint" && exprString(conv.Fun) == "uint64")) {
					w.out = append(w.out, "PNum "+coqStr(lastSel(stripConv(conv))))
				} else {
					w.out = append(w.out, "POpaque "+coqStr(exprString(a)))
				}
			} else if exprString(a) == "ip.String()" && w.pendingIP != "" {
				w.out = append(w.out, "PIP4 "+coqStr(w.pendingIP))
				w.pendingIP = ""
			} else if lastSel(a) != "" {
				w.out = append(w.out, "PStr "+coqStr(lastSel(a)))
			} else {
				w.out = append(w.out, "POpaque "+coqStr(exprString(a)))
			}
		case fun == "b.WriteByte" && len(call.Args) == 1:
			if bl, ok := call.Args[0].(*ast.BasicLit); ok {
				if r, _, _, err := strconv.UnquoteChar(bl.Value[1:len(bl.Value)-1], '\''); err == nil {
					w.out = append(w.out, "PLit "+coqStr(string(r)))
					continue
				}
			}
			w.out = append(w.out, "POpaque "+coqStr(exprString(st)))
		case fun == "binary.BigEndian.PutUint32" && len(call.Args) == 2 && exprString(call.Args[0]) == "ip" && lastSel(call.Args[1]) != "":
			w.pendingIP = lastSel(call.Args[1])
		default:
			// a small helper of the same file that takes the buffer first (writeUint(b, x), writeQuoted(b, s) ...): its body, with the
			// parameters replaced by the arguments, is read in place
			if id, ok := call.Fun.(*ast.Ident); ok && w.depth < 3 && len(call.Args) >= 1 && exprString(call.Args[0]) == "b" {
				if fd := w.helper(id.Name); fd != nil && fd.Recv == nil && fd.Type.Params != nil {
					var names []string
					for _, fl := range fd.Type.Params.List {
						for _, n := range fl.Names {
							names = append(names, n.Name)
						}
					}
					if len(names) == len(call.Args) {
						env2 := map[string]ast.Expr{}
						for i, n := range names {
							if i == 0 {
								env2[n] = ast.NewIdent("b")
							} else {
								env2[n] = call.Args[i]
							}
						}
						w.depth++
						w.stmts(fd.Body.List, env2)
						w.depth--
						continue
					}
				}
			}
			w.out = append(w.out, "POpaque "+coqStr(exprString(st)))
		}
	}
}

func extractPieces(f *ast.File, fn string) []string {
	for _, d := range f.Decls {
		fd, ok := d.(*ast.FuncDecl)
		if !ok || fd.Name.Name != fn {
			continue
		}
		w := &pieceWalker{f: f}
		w.stmts(fd.Body.List, nil)
		// canonical form: neighbouring literals are one literal (how the text is cut into WriteString calls does not matter)
		var merged []string
		lit := ""
		have := false
		flush := func() {
			if have {
				merged = append(merged, "PLit "+coqStr(lit))
				lit, have = "", false
			}
		}
		for _, p := range w.out {
			if strings.HasPrefix(p, "PLit \"") {
				body := p[len("PLit \"") : len(p)-1]
				lit += strings.ReplaceAll(body, "\"\"", "\"")
				have = true
				continue
			}
			flush()
			merged = append(merged, p)
		}
		flush()
		return merged
	}
	return nil
}

func genPieces() {
	var sb strings.Builder
	sb.WriteString(header("the straight-line JSON encoders of netflow/v5, netflow/v9 and ipfix marshal.go"))
	sb.WriteString("From VF Require Import Model.JsonPieces.\n\n")
	files := map[string]*ast.File{}
	info := map[string]interface{}{}
	for _, sp := range pieceSpecs {
		f, ok := files[sp.file]
		if !ok {
			_, f = parseFile(sp.file)
			files[sp.file] = f
		}
		ps := extractPieces(f, sp.fn)
		if ps == nil {
			problem("pieces %s: func %s not found in %s", sp.coqName, sp.fn, sp.file)
			ps = []string{"POpaque \"missing\""}
		}
		for _, p := range ps {
			if strings.HasPrefix(p, "POpaque") {
				problem("pieces %s: %s", sp.coqName, p)
			}
		}
		fmt.Fprintf(&sb, "Definition %s : list piece :=\n  [%s].\n\n", sp.coqName, strings.Join(ps, ";\n   "))
		info[sp.coqName] = len(ps)
	}
	writeIfChanged("JsonPieces.v", sb.String())
	manifest["json_pieces"] = info
}

func init() { extraGenerators = append(extraGenerators, genPieces) }
