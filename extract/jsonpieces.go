package main

import (
	"fmt"
	"go/ast"
	"strconv"
	"strings"
)

// The hand-written JSON encoders that are straight sequences of buffer writes
// (encodeHeader / encodeAgent / encodeFlow) become ordered lists of pieces:
//   PLit "text" | PNum "Field" (strconv.FormatInt(int64(x.Field),10)) | PIP4 "Field"
//   (BigEndian.PutUint32(ip, x.Field); ip.String()) | PStr "Field" (WriteString(x.Field)) | POpaque "..."

type pieceSpec struct {
	coqName string
	file    string
	fn      string
}

var pieceSpecs = []pieceSpec{
	{"nf5_agent_pieces", "netflow/v5/marshal.go", "encodeAgent"},
	{"nf5_header_pieces", "netflow/v5/marshal.go", "encodeHeader"},
	{"nf5_flow_pieces", "netflow/v5/marshal.go", "encodeFlow"},
	{"nf9_agent_pieces", "netflow/v9/marshal.go", "encodeAgent"},
	{"nf9_header_pieces", "netflow/v9/marshal.go", "encodeHeader"},
	{"ipfix_agent_pieces", "ipfix/marshal.go", "encodeAgent"},
	{"ipfix_header_pieces", "ipfix/marshal.go", "encodeHeader"},
}

func lastSel(e ast.Expr) string {
	if s, ok := e.(*ast.SelectorExpr); ok {
		return s.Sel.Name
	}
	return ""
}

func extractPieces(f *ast.File, fn string) []string {
	for _, d := range f.Decls {
		fd, ok := d.(*ast.FuncDecl)
		if !ok || fd.Name.Name != fn {
			continue
		}
		var out []string
		pendingIP := ""
		for _, st := range fd.Body.List {
			es, ok := st.(*ast.ExprStmt)
			if !ok {
				if as, ok := st.(*ast.AssignStmt); ok && exprString(as) == "ip := make(net.IP, 4)" {
					continue
				}
				out = append(out, "POpaque "+coqStr(exprString(st)))
				continue
			}
			call, ok := es.X.(*ast.CallExpr)
			if !ok {
				out = append(out, "POpaque "+coqStr(exprString(st)))
				continue
			}
			fun := exprString(call.Fun)
			switch {
			case fun == "b.WriteString" && len(call.Args) == 1:
				a := call.Args[0]
				if s, ok := strLit(a); ok {
					out = append(out, "PLit "+coqStr(s))
				} else if c, ok := a.(*ast.CallExpr); ok && exprString(c.Fun) == "strconv.FormatInt" && len(c.Args) == 2 && exprString(c.Args[1]) == "10" {
					if conv, ok := c.Args[0].(*ast.CallExpr); ok && exprString(conv.Fun) == "int64" && len(conv.Args) == 1 && lastSel(conv.Args[0]) != "" {
						out = append(out, "PNum "+coqStr(lastSel(conv.Args[0])))
					} else {
						out = append(out, "POpaque "+coqStr(exprString(a)))
					}
				} else if exprString(a) == "ip.String()" && pendingIP != "" {
					out = append(out, "PIP4 "+coqStr(pendingIP))
					pendingIP = ""
				} else if lastSel(a) != "" {
					out = append(out, "PStr "+coqStr(lastSel(a)))
				} else {
					out = append(out, "POpaque "+coqStr(exprString(a)))
				}
			case fun == "b.WriteByte" && len(call.Args) == 1:
				if bl, ok := call.Args[0].(*ast.BasicLit); ok {
					if r, _, _, err := strconv.UnquoteChar(bl.Value[1:len(bl.Value)-1], '\''); err == nil {
						out = append(out, "PLit "+coqStr(string(r)))
						continue
					}
				}
				out = append(out, "POpaque "+coqStr(exprString(st)))
			case fun == "binary.BigEndian.PutUint32" && len(call.Args) == 2 && exprString(call.Args[0]) == "ip" && lastSel(call.Args[1]) != "":
				pendingIP = lastSel(call.Args[1])
			default:
				out = append(out, "POpaque "+coqStr(exprString(st)))
			}
		}
		return out
	}
	return nil
}

func genPieces() {
	var sb strings.Builder
	sb.WriteString(header("the straight-line JSON encoders of netflow/v5, netflow/v9 and ipfix marshal.go"))
	sb.WriteString("From VF Require Import Model.JsonPieces.\n\n")
	files := map[string]*ast.File{}
	info := map[string]interface{}{}
	for _, sp := range pieceSpecs {
		f, ok := files[sp.file]
		if !ok {
			_, f = parseFile(sp.file)
			files[sp.file] = f
		}
		ps := extractPieces(f, sp.fn)
		if ps == nil {
			problem("pieces %s: func %s not found in %s", sp.coqName, sp.fn, sp.file)
			ps = []string{"POpaque \"missing\""}
		}
		for _, p := range ps {
			if strings.HasPrefix(p, "POpaque") {
				problem("pieces %s: %s", sp.coqName, p)
			}
		}
		fmt.Fprintf(&sb, "Definition %s : list piece :=\n  [%s].\n\n", sp.coqName, strings.Join(ps, ";\n   "))
		info[sp.coqName] = len(ps)
	}
	writeIfChanged("JsonPieces.v", sb.String())
	manifest["json_pieces"] = info
}

func init() { extraGenerators = append(extraGenerators, genPieces) }
