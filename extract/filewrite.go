// filewrite.go: how MemCache.Dump writes the cache file (ipfix/memcache.go, netflow/v9/memcache.go).
// A cache saved over a longer older file must REPLACE it: ioutil.WriteFile / os.WriteFile / os.Create
// truncate; os.OpenFile truncates only with O_TRUNC among its flags.  Emitted as Gen/FileWrite.v.
package main

import (
	"fmt"
	"go/ast"
	"strings"
)

func genFileWrite() {
	files := []struct{ name, file string }{{"ipfix", "ipfix/memcache.go"}, {"nf9", "netflow/v9/memcache.go"}}
	var rows []string
	man := map[string]interface{}{}
	for _, pf := range files {
		_, f := parseFile(pf.file)
		mode, truncates := "none", false
		for _, d := range f.Decls {
			fd, ok := d.(*ast.FuncDecl)
			if !ok || fd.Name.Name != "Dump" || fd.Body == nil {
				continue
			}
			ast.Inspect(fd.Body, func(n ast.Node) bool {
				c, ok := n.(*ast.CallExpr)
				if !ok {
					return true
				}
				sel, ok := c.Fun.(*ast.SelectorExpr)
				if !ok {
					return true
				}
				pkg, _ := sel.X.(*ast.Ident)
				if pkg == nil {
					return true
				}
				switch {
				case (pkg.Name == "ioutil" || pkg.Name == "os") && sel.Sel.Name == "WriteFile":
					mode, truncates = pkg.Name+".WriteFile", true
				case pkg.Name == "os" && sel.Sel.Name == "Create":
					mode, truncates = "os.Create", true
				case pkg.Name == "os" && sel.Sel.Name == "OpenFile" && len(c.Args) >= 2:
					flags := exprString(c.Args[1])
					mode = "os.OpenFile(" + flags + ")"
					truncates = strings.Contains(flags, "O_TRUNC")
				}
				return true
			})
		}
		if mode == "none" {
			problem("%s: Dump does not write a file in a recognised way", pf.file)
		}
		rows = append(rows, fmt.Sprintf("(%s, %s, %v)", coqStr(pf.name), coqStr(mode), truncates))
		man[pf.name] = map[string]interface{}{"mode": mode, "truncates": truncates}
	}
	var b strings.Builder
	b.WriteString(header("MemCache.Dump of ipfix/memcache.go and netflow/v9/memcache.go"))
	b.WriteString("(* cache, the call that writes the file, whether it replaces (truncates) an existing longer file *)\n")
	b.WriteString("Definition dump_write : list (string * string * bool) :=\n  [" + strings.Join(rows, ";\n   ") + "].\n")
	writeIfChanged("FileWrite.v", b.String())
	manifest["filewrite"] = man
}

func init() { extraGenerators = append(extraGenerators, genFileWrite) }
