// filewrite.go: how MemCache.Dump writes the cache file (ipfix/memcache.go, netflow/v9/memcache.go).
// A cache saved over a longer older file must REPLACE it: ioutil.WriteFile / os.WriteFile / os.Create
// truncate; os.OpenFile truncates only with O_TRUNC among its flags.  Emitted as Gen/FileWrite.v.
package main

import (
	"fmt"
	"go/ast"
	"strings"
)

func genFileWrite() {
	files := []struct{ name, file string }{{"ipfix", "ipfix/memcache.go"}, {"nf9", "netflow/v9/memcache.go"}}
	var rows []string
	man := map[string]interface{}{}
	for _, pf := range files {
		_, f := parseFile(pf.file)
		mode, truncates := "none", false
		for _, d := range f.Decls {
			fd, ok := d.(*ast.FuncDecl)
			if !ok || fd.Name.Name != "Dump" || fd.Body == nil {
				continue
			}
			ast.Inspect(fd.Body, func(n ast.Node) bool {
				c, ok := n.(*ast.CallExpr)
				if !ok {
					return true
				}
				sel, ok := c.Fun.(*ast.SelectorExpr)
				if !ok {
					return true
				}
				pkg, _ := sel.X.(*ast.Ident)
				if pkg == nil {
					return true
				}
				switch {
				case (pkg.Name == "ioutil" || pkg.Name == "os") && sel.Sel.Name == "WriteFile":
					mode, truncates = pkg.Name+".WriteFile", true
				case pkg.Name == "os" && sel.Sel.Name == "Create":
					mode, truncates = "os.Create", true
				case pkg.Name == "os" && sel.Sel.Name == "OpenFile" && len(c.Args) >= 2:
					flags := exprString(c.Args[1])
					mode = "os.OpenFile(" + flags + ")"
					truncates = strings.Contains(flags, "O_TRUNC")
				}
				return true
			})
		}
		if mode == "none" {
			problem("%s: Dump does not write a file in a recognised way", pf.file)
		}
		rows = append(rows, fmt.Sprintf("(%s, %s, %v)", coqStr(pf.name), coqStr(mode), truncates))
		man[pf.name] = map[string]interface{}{"mode": mode, "truncates": truncates}
	}
	// how GetCache obtains the octets it hands to json.Unmarshal: the WHOLE file (ioutil.ReadFile / os.ReadFile, or ReadAll of
	// the opened file itself), or something that can stop short of its end (a limited reader, a fixed buffer, one Read call)
	var lrows []string
	lman := map[string]interface{}{}
	for _, pf := range files {
		dir := pf.file[:strings.LastIndex(pf.file, "/")]
		idx := indexPackage(dir)
		how, whole := "none", false
		partial := ""
		seen := map[string]bool{}
		var visit func(fd *ast.FuncDecl, depth int)
		visit = func(fd *ast.FuncDecl, depth int) {
			if fd == nil || fd.Body == nil || seen[fd.Name.Name] || depth > 3 {
				return
			}
			seen[fd.Name.Name] = true
			ast.Inspect(fd.Body, func(n ast.Node) bool {
				c, ok := n.(*ast.CallExpr)
				if !ok {
					return true
				}
				if h := idx.callee(c, "", ""); h != nil {
					visit(h, depth+1)
					return true
				}
				sel, ok := c.Fun.(*ast.SelectorExpr)
				if !ok {
					return true
				}
				pkg, _ := sel.X.(*ast.Ident)
				name := sel.Sel.Name
				switch {
				case pkg != nil && (pkg.Name == "ioutil" || pkg.Name == "os") && name == "ReadFile":
					how, whole = pkg.Name+".ReadFile", true
				case pkg != nil && (pkg.Name == "ioutil" || pkg.Name == "io") && name == "ReadAll" && len(c.Args) == 1:
					if _, plain := c.Args[0].(*ast.Ident); plain {
						how, whole = pkg.Name+".ReadAll(file)", true
					} else {
						how, partial = pkg.Name+".ReadAll("+exprString(c.Args[0])+")", "ReadAll of something other than the file itself"
					}
				case name == "LimitReader" || name == "LimitedReader" || name == "ReadFull" || name == "ReadAtLeast" || name == "CopyN" ||
					name == "NewSectionReader" || name == "Read" || name == "ReadAt":
					partial = exprString(c.Fun)
				}
				return true
			})
		}
		visit(idx.funcs["GetCache"], 0)
		if partial != "" {
			whole = false
			if how == "none" {
				how = partial
			} else {
				how += " via " + partial
			}
		}
		if how == "none" {
			problem("%s: GetCache does not read the file in a recognised way", pf.file)
		}
		lrows = append(lrows, fmt.Sprintf("(%s, %s, %v)", coqStr(pf.name), coqStr(how), whole))
		lman[pf.name] = map[string]interface{}{"how": how, "whole_file": whole}
	}
	manifest["fileload"] = lman
	var b strings.Builder
	b.WriteString(header("MemCache.Dump and GetCache of ipfix/memcache.go and netflow/v9/memcache.go"))
	b.WriteString("(* cache, the call that writes the file, whether it replaces (truncates) an existing longer file *)\n")
	b.WriteString("Definition dump_write : list (string * string * bool) :=\n  [" + strings.Join(rows, ";\n   ") + "].\n")
	b.WriteString("\n(* cache, how GetCache reads the file, whether what it reads is the WHOLE file whatever its size *)\n")
	b.WriteString("Definition load_read : list (string * string * bool) :=\n  [" + strings.Join(lrows, ";\n   ") + "].\n")
	writeIfChanged("FileWrite.v", b.String())
	manifest["filewrite"] = man
}

func init() { extraGenerators = append(extraGenerators, genFileWrite) }
