// rpc.go: templates fetched from peer collectors (ipfix/memcache_rpc.go), as the facts the model of the fetch rests on:
//   server_get   what IRPC.Get answers with: the lookup of exactly the requested (id, address) in the server's cache
//   client_reply where RPCClient.Get lets net/rpc decode the answer: a record made fresh in that call ("fresh"), or storage
//                that outlives the call ("reused:<expr>": gob leaves zero fields of an answer as the destination had them)
//   client_call  the remote method and what is sent
//   loop_fetch   in RPC(): the answer that is inserted was asked for with the request it is inserted under
//   loop_insert  ... under the REQUESTING (id, address)
// Emitted as Gen/Rpc.v; Properties/C04.v proves them to be what Model/PeerFetch.v assumes.
package main

import (
	"fmt"
	"go/ast"
	"go/token"
	"strings"
)

func genRpc() {
	_, f := parseFile("ipfix/memcache_rpc.go")
	facts := map[string]string{"server_get": "none", "client_reply": "none", "client_call": "none", "loop_fetch": "none", "loop_insert": "none"}
	for _, d := range f.Decls {
		fd, ok := d.(*ast.FuncDecl)
		if !ok || fd.Body == nil {
			continue
		}
		rt, rv := recvOf(fd)
		switch {
		case rt == "IRPC" && fd.Name.Name == "Get" && len(fd.Type.Params.List) >= 1:
			// parameter names: request, reply
			var names []string
			for _, p := range fd.Type.Params.List {
				for _, n := range p.Names {
					names = append(names, n.Name)
				}
			}
			if len(names) != 2 {
				continue
			}
			env := map[string]ast.Expr{names[0]: ast.NewIdent("req"), names[1]: ast.NewIdent("resp"), rv: ast.NewIdent("r")}
			ast.Inspect(fd.Body, func(n ast.Node) bool {
				as, ok := n.(*ast.AssignStmt)
				if !ok || len(as.Rhs) != 1 {
					return true
				}
				c, ok := as.Rhs[0].(*ast.CallExpr)
				if !ok || !strings.HasSuffix(squash(exprString(c.Fun)), ".retrieve") {
					return true
				}
				facts["server_get"] = squash(exprString(substExpr(as.Lhs[0], env))) + " = " + squash(exprString(substExpr(c, env)))
				return true
			})
		case rt == "RPCClient" && fd.Name.Name == "Get":
			var names []string
			for _, p := range fd.Type.Params.List {
				for _, n := range p.Names {
					names = append(names, n.Name)
				}
			}
			if len(names) != 1 {
				continue
			}
			// locals made fresh in this call: `var x T`, `var x *T`, `x := new(T)`, `x := T{}`, `x := &T{}`
			fresh := map[string]bool{}
			ast.Inspect(fd.Body, func(n ast.Node) bool {
				switch x := n.(type) {
				case *ast.DeclStmt:
					if gd, ok := x.Decl.(*ast.GenDecl); ok && gd.Tok == token.VAR {
						for _, sp := range gd.Specs {
							if vs, ok := sp.(*ast.ValueSpec); ok && len(vs.Values) == 0 {
								for _, n := range vs.Names {
									fresh[n.Name] = true
								}
							}
						}
					}
				case *ast.AssignStmt:
					if x.Tok == token.DEFINE && len(x.Lhs) == 1 && len(x.Rhs) == 1 {
						r := squash(exprString(x.Rhs[0]))
						if r == "new(TemplateRecord)" || r == "TemplateRecord{}" || r == "&TemplateRecord{}" {
							fresh[exprString(x.Lhs[0])] = true
						}
					}
				}
				return true
			})
			ast.Inspect(fd.Body, func(n ast.Node) bool {
				c, ok := n.(*ast.CallExpr)
				if !ok || !strings.HasSuffix(squash(exprString(c.Fun)), ".Call") || len(c.Args) != 3 {
					return true
				}
				m, _ := strLit(c.Args[0])
				arg := squash(exprString(c.Args[1]))
				if arg == names[0] {
					arg = "req"
				}
				facts["client_call"] = m + "(" + arg + ")"
				dst := c.Args[2]
				if u, ok := dst.(*ast.UnaryExpr); ok && u.Op == token.AND {
					dst = u.X
				}
				if id, ok := dst.(*ast.Ident); ok && fresh[id.Name] {
					facts["client_reply"] = "fresh"
				} else {
					facts["client_reply"] = "reused:" + squash(exprString(c.Args[2]))
				}
				return true
			})
		case rt == "" && fd.Name.Name == "RPC":
			// req := <-rpcChan ... tr, err := <client>.Get(req) ... <cache>.insert(req.ID, req.IP, *tr)
			reqVar, ansVar := "", ""
			ast.Inspect(fd.Body, func(n ast.Node) bool {
				as, ok := n.(*ast.AssignStmt)
				if !ok || len(as.Rhs) != 1 {
					return true
				}
				if u, ok := as.Rhs[0].(*ast.UnaryExpr); ok && u.Op == token.ARROW && squash(exprString(u.X)) == "rpcChan" && len(as.Lhs) == 1 {
					reqVar = exprString(as.Lhs[0])
				}
				if c, ok := as.Rhs[0].(*ast.CallExpr); ok && strings.HasSuffix(squash(exprString(c.Fun)), ".Get") && len(c.Args) == 1 && len(as.Lhs) == 2 {
					a := squash(exprString(c.Args[0]))
					if a == reqVar && reqVar != "" {
						a = "req"
					}
					ansVar = exprString(as.Lhs[0])
					facts["loop_fetch"] = "tr = Get(" + a + ")"
				}
				return true
			})
			ast.Inspect(fd.Body, func(n ast.Node) bool {
				c, ok := n.(*ast.CallExpr)
				if !ok || !strings.HasSuffix(squash(exprString(c.Fun)), ".insert") {
					return true
				}
				env := map[string]ast.Expr{}
				if reqVar != "" {
					env[reqVar] = ast.NewIdent("req")
				}
				if ansVar != "" {
					env[ansVar] = ast.NewIdent("tr")
				}
				var as []string
				for _, a := range c.Args {
					as = append(as, squash(exprString(substExpr(a, env))))
				}
				facts["loop_insert"] = "insert(" + strings.Join(as, ", ") + ")"
				return true
			})
		}
	}
	var b strings.Builder
	b.WriteString(header("IRPC.Get, RPCClient.Get and RPC of ipfix/memcache_rpc.go"))
	b.WriteString("(* the peer fetch: what the server answers with, where the client has the answer decoded, what is inserted under which key *)\n")
	b.WriteString("Definition rpc_facts : list (string * string) :=\n  [")
	var rows []string
	for _, k := range []string{"server_get", "client_call", "client_reply", "loop_fetch", "loop_insert"} {
		if facts[k] == "none" {
			problem("ipfix/memcache_rpc.go: %s not found in a recognised form", k)
		}
		rows = append(rows, fmt.Sprintf("(%s, %s)", coqStr(k), coqStr(facts[k])))
	}
	b.WriteString(strings.Join(rows, ";\n   ") + "].\n")
	writeIfChanged("Rpc.v", b.String())
	manifest["rpc"] = facts
}

func init() { extraGenerators = append(extraGenerators, genRpc) }
